# sourced by every script: offline Go environment with a private build cache
export GOFLAGS=-mod=mod GOPROXY=off GOSUMDB=off GOTOOLCHAIN=local
export GOCACHE=/verif/.cache/gobuild
export VERIF_ROOT=/verif
export VERIF_REPO=${VERIF_REPO:-/repo}
