# sourced by every script: offline Go environment with a private build cache.
# ROOT is the verif tree the script lives in (/verif, or a `vp run` snapshot of it);
# the Go build cache and the patched pquerna/otp copy are shared from /verif/.cache.
export GOFLAGS=-mod=mod GOPROXY=off GOSUMDB=off GOTOOLCHAIN=local
export GOCACHE=/verif/.cache/gobuild
ROOT=$(cd "$(dirname "${BASH_SOURCE[0]}")/.." && pwd)
export VERIF_ROOT=$ROOT
export VERIF_REPO=${VERIF_REPO:-/repo}
