#!/usr/bin/env python3
"""Regenerates MANIFEST.json from the table below (single source of truth for what is claimed)."""
import json, os
root = os.path.dirname(os.path.dirname(os.path.abspath(__file__)))
props = [json.loads(l) for l in open(os.path.join(root, "properties.jsonl"))]

E1 = "explicit-state BFS over the real handlers (E1) with canonical state hashing; every state's shortest trace re-validated by replay on a fresh instance"
CLAIMED = {
 # id: (category, design_ref, technique, text, note)
 "C01": ("model_checking", "4/C01", E1 + "; oracle = ground-truth justification of every session-user change",
         "All reachable states of the composed application (six module sets, 2-3 accounts x 2 browsers, full credential alphabets incl. other accounts' / stale / stored-hash / empty / oversized secrets) are enumerated up to the stated depth; on every transition a changed session user must be justified by a credential the oracle itself knows to be valid.",
         "harness world (database-like storer, client-state stores, virtual clock, deterministic crypto/rand), bounded depth/participants/alphabets"),
}
NA = {}

checks = []
for p in props:
    i = p["id"]
    if i in CLAIMED:
        cat, ref, tech, text, note = CLAIMED[i]
        checks.append({
            "property_id": i,
            "quick_cmd": f"bin/vcheck {i} quick",
            "thorough_cmd": f"bin/vcheck {i} thorough",
            "evidence_file": f"/verif/evidence/{i}.json",
            "replay_cmd_template": "bin/vcheck --replay {path}",
            "engine": "harness",
            "level_claimed": {"category": cat, "text": text, "design_ref": "DESIGN.md section " + ref},
            "level_note": note,
            "technique": tech,
        })
na = [{"property_id": p["id"], "reason": NA.get(p["id"], "check not built yet (work in progress); will be claimed once its exhaustive exploration exists")}
      for p in props if p["id"] not in CLAIMED]
m = {
 "version": 1,
 "setup_cmd": "bin/setup",
 "hooks": {"guard": "verif",
           "enable": "no source hooks in /repo: seams (virtual clock, bcrypt cost, scheduler) are inserted at build time by go build -overlay generated from the current tree (bin/build, DESIGN.md 2.1)",
           "baseline_off_cmd": "cd /repo && GOFLAGS=-mod=mod GOPROXY=off GOSUMDB=off GOTOOLCHAIN=local go test -json -vet=off -count=1 -timeout 25m ./...",
           "source_commits": [], "add_only": True},
 "engines": [{"name": "harness", "path": "/verif/harness", "serves_properties": sorted(CLAIMED),
              "kind_free_text": "hand-written explicit-state / product / fault / schedule explorers driving the real authboss handlers inside a closed, clonable world"}],
 "checks": checks,
 "notes": "All checks are bounded-exhaustive enumerations executed on the real implementation; see DESIGN.md.",
 "not_applicable": na,
}
json.dump(m, open(os.path.join(root, "MANIFEST.json"), "w"), indent=1)
print("claimed", len(checks), "not_applicable", len(na))
