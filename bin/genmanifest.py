#!/usr/bin/env python3
"""Regenerates MANIFEST.json from the table below (single source of truth for what is claimed)."""
import json, os
root = os.path.dirname(os.path.dirname(os.path.abspath(__file__)))
props = [json.loads(l) for l in open(os.path.join(root, "properties.jsonl"))]

E1 = "explicit-state BFS over the real handlers (E1) with canonical state hashing; every state's shortest trace re-validated by replay on a fresh instance"
CLAIMED = {
 # id: (category, design_ref, technique, text, note)
 "C01": ("model_checking", "4/C01", E1 + "; oracle = ground-truth justification of every session-user change",
         "All reachable states of the composed application (six module sets, 2-3 accounts x 2 browsers, full credential alphabets incl. other accounts' / stale / stored-hash / empty / oversized secrets) are enumerated up to the stated depth; on every transition a changed session user must be justified by a credential the oracle itself knows to be valid.",
         "harness world (database-like storer, client-state stores, virtual clock, deterministic crypto/rand), bounded depth/participants/alphabets"),
 "C02": ("model_checking", "4/C02", E1 + "; (1) adversary-only action menu with the invariant 'no browser holds uid=victim' on every reachable state, (2) full-knowledge menu with per-transition rules",
         "Reachability analysis under an explicit adversary model (knows the victim's password, owns other accounts with their own factors and phone, controls two browsers, can wait across the SMS resend limit and a TOTP step): every reachable state is checked for a victim session; plus a per-transition monitor with the victim's real codes in the alphabet.",
         "adversary model as listed in the evidence assumptions; bounded depth, 3 accounts, 2 browsers"),
 "C03": ("model_checking", "4/C03", E1 + "; lockedness decided by the C04 reference automaton advanced on the same history, not by what storage says",
         "Every login path (password, OTP, OAuth2 callback, recover-and-login, TOTP/SMS second step) is enumerated against lock / confirm state changes (failures, administrator lock/unlock, re-started confirmation, lock expiry) in both handler orders; a newly issued session requires the account to be unlocked and confirmed in the pre-state, and the handler behind lock/confirm middleware only ever runs for such users.",
         "lock.Middleware / confirm.Middleware placed behind authboss.Middleware2 (README); bounded depth"),
 "C04": ("model_checking", "4/C04", E1 + " with a reference automaton (count, last attempt, locked-until) compared with storage and a probe login after every step; fixpoint on small-duration configurations",
         "The lock module's stored state is compared, after every step of every history over {correct/wrong password, OTP, TOTP code, manual lock/unlock, clock advances on either side of LockWindow/LockDuration}, with an independent automaton written from the statement, across a grid of LockAfter x window x duration; small configurations run to a fixpoint so histories of any length are covered.",
         "expiry at exactly LockDuration not asserted; at most LockAfter+2 counted failures in a row"),
 "C05": ("model_checking", "4/C05", E1 + " x complete near-miss battery (all single-bit flips, length changes, splices, storage-built values, dead tokens, alternative base64 spellings) on clones of every distinct reached state",
         "Issue / re-issue / use / expiry histories of confirm and recover tokens are enumerated with a reference model of acceptance; from every distinct reached state with an outstanding token the whole near-miss value set is submitted on clones, each followed by the genuine token.",
         "quick tier flips every third bit; bounded depth, 3 accounts"),
 "C06": ("model_checking", "4/C06", E1 + " x probe battery (real logins with old/new password, real requests with pre-change cookies, stored-field inspection, token replay) on clones of every distinct state after a completed change",
         "All histories of cookie issuance on several browsers followed by a password change through recovery or UpdatePassword, over a set of old/new password classes (equal, last byte, case, non-ASCII, 72/73 bytes, one char), with the remember module loaded or not and login-after-recovery on or off; revocation is decided by the oracle's own record of completed changes and verified by real requests.",
         "bcrypt's 72-byte limit; bounded depth, 2 accounts, 3 browsers"),
 "C07": ("model_checking", "4/C07", E1 + " per PID class (incl. ';' forms and the PID built by a real OAuth2 login) with crafted-cookie and single-fault transitions; oracle = own record of live tokens",
         "Issue / use / replay / theft / logout / password-update histories of remember cookies are enumerated for every PID class and a cookie alphabet (genuine, other account's, used, revoked, malformed, bit-flipped); the cookie-bearing request itself is sent to a RequireFullAuth route; storage faults are injected at the two token-table calls.",
         "remember.Middleware wraps the whole application; bounded depth, 2 accounts, 2 browsers"),
 "C12": ("model_checking", "4/C12", E1 + "; acceptance must come from the oracle's own unconsumed set and the accepted value's hash must be gone from the copy-semantics database after the response",
         "Generate / use / replay / clear / regenerate histories of one-time passwords, 2FA recovery codes, TOTP codes (with and without replay protection) and SMS codes are enumerated with foreign, stale, stored-hash and empty candidates.",
         "storage has database semantics; bounded depth, 2 accounts, 2 browsers"),
}
NA = {}

checks = []
for p in props:
    i = p["id"]
    if i in CLAIMED:
        cat, ref, tech, text, note = CLAIMED[i]
        checks.append({
            "property_id": i,
            "quick_cmd": f"bin/vcheck {i} quick",
            "thorough_cmd": f"bin/vcheck {i} thorough",
            "evidence_file": f"/verif/evidence/{i}.json",
            "replay_cmd_template": "bin/vcheck --replay {path}",
            "engine": "harness",
            "level_claimed": {"category": cat, "text": text, "design_ref": "DESIGN.md section " + ref},
            "level_note": note,
            "technique": tech,
        })
na = [{"property_id": p["id"], "reason": NA.get(p["id"], "check not built yet (work in progress); will be claimed once its exhaustive exploration exists")}
      for p in props if p["id"] not in CLAIMED]
m = {
 "version": 1,
 "setup_cmd": "bin/setup",
 "hooks": {"guard": "verif",
           "enable": "no source hooks in /repo: seams (virtual clock, bcrypt cost, scheduler) are inserted at build time by go build -overlay generated from the current tree (bin/build, DESIGN.md 2.1)",
           "baseline_off_cmd": "cd /repo && GOFLAGS=-mod=mod GOPROXY=off GOSUMDB=off GOTOOLCHAIN=local go test -json -vet=off -count=1 -timeout 25m ./...",
           "source_commits": [], "add_only": True},
 "engines": [{"name": "harness", "path": "/verif/harness", "serves_properties": sorted(CLAIMED),
              "kind_free_text": "hand-written explicit-state / product / fault / schedule explorers driving the real authboss handlers inside a closed, clonable world"}],
 "checks": checks,
 "notes": "All checks are bounded-exhaustive enumerations executed on the real implementation; see DESIGN.md.",
 "not_applicable": na,
}
json.dump(m, open(os.path.join(root, "MANIFEST.json"), "w"), indent=1)
print("claimed", len(checks), "not_applicable", len(na))
