#!/usr/bin/env python3
"""Regenerates MANIFEST.json from the table below (single source of truth for what is claimed)."""
import json, os
root = os.path.dirname(os.path.dirname(os.path.abspath(__file__)))
props = [json.loads(l) for l in open(os.path.join(root, "properties.jsonl"))]

E1 = "explicit-state BFS over the real handlers (E1) with canonical state hashing; every state's shortest trace re-validated by replay on a fresh instance"
CLAIMED = {
 # id: (category, design_ref, technique, text, note)
 "C01": ("model_checking", "4/C01", E1 + "; oracle = ground-truth justification of every session-user change",
         "All reachable states of the composed application (six module sets, 2-3 accounts x 2 browsers, full credential alphabets incl. other accounts' / stale / stored-hash / empty / oversized secrets) are enumerated up to the stated depth; on every transition a changed session user must be justified by a credential the oracle itself knows to be valid.",
         "harness world (database-like storer, client-state stores, virtual clock, deterministic crypto/rand), bounded depth/participants/alphabets"),
 "C02": ("model_checking", "4/C02", E1 + "; (1) adversary-only action menu with the invariant 'no browser holds uid=victim' on every reachable state, (2) full-knowledge menu with per-transition rules",
         "Reachability analysis under an explicit adversary model (knows the victim's password, owns other accounts with their own factors and phone, controls two browsers, can wait across the SMS resend limit and a TOTP step): every reachable state is checked for a victim session; plus a per-transition monitor with the victim's real codes in the alphabet.",
         "adversary model as listed in the evidence assumptions; bounded depth, 3 accounts, 2 browsers"),
 "C03": ("model_checking", "4/C03", E1 + "; lockedness decided by the C04 reference automaton advanced on the same history, not by what storage says",
         "Every login path (password, OTP, OAuth2 callback, recover-and-login, TOTP/SMS second step) is enumerated against lock / confirm state changes (failures, administrator lock/unlock, re-started confirmation, lock expiry) in both handler orders; a newly issued session requires the account to be unlocked and confirmed in the pre-state, and the handler behind lock/confirm middleware only ever runs for such users.",
         "lock.Middleware / confirm.Middleware behind authboss.Middleware2 (README) and on their own (guard route, also with the user load failing); bounded depth"),
 "C04": ("model_checking", "4/C04", E1 + " with a reference automaton (count, last attempt, locked-until) compared with storage and a probe login after every step; fixpoint on small-duration configurations",
         "The lock module's stored state is compared, after every step of every history over {correct/wrong password, OTP, TOTP code, manual lock/unlock, clock advances on either side of LockWindow/LockDuration}, with an independent automaton written from the statement, across a grid of LockAfter x window x duration; small configurations run to a fixpoint so histories of any length are covered.",
         "expiry at exactly LockDuration not asserted; at most LockAfter+2 counted failures in a row"),
 "C05": ("model_checking", "4/C05", E1 + " x complete near-miss battery (all single-bit flips, length changes, splices, storage-built values, dead tokens, alternative base64 spellings) on clones of every distinct reached state",
         "Issue / re-issue / use / expiry histories of confirm and recover tokens are enumerated with a reference model of acceptance; from every distinct reached state with an outstanding token the whole near-miss value set is submitted on clones, each followed by the genuine token.",
         "quick tier flips every third bit; bounded depth, 3 accounts"),
 "C06": ("model_checking", "4/C06", E1 + " x probe battery (real logins with old/new password, real requests with pre-change cookies, stored-field inspection, token replay) on clones of every distinct state after a completed change",
         "All histories of cookie issuance on several browsers followed by a password change through recovery or UpdatePassword, over a set of old/new password classes (equal, last byte, case, non-ASCII, 72/73 bytes, one char), with the remember module loaded or not and login-after-recovery on or off; revocation is decided by the oracle's own record of completed changes and verified by real requests.",
         "bcrypt's 72-byte limit; bounded depth, 2 accounts, 3 browsers"),
 "C07": ("model_checking", "4/C07", E1 + " per PID class (incl. ';' forms and the PID built by a real OAuth2 login) with crafted-cookie and single-fault transitions; oracle = own record of live tokens",
         "Issue / use / replay / theft / logout / password-update histories of remember cookies are enumerated for every PID class and a cookie alphabet (genuine, other account's, used, revoked, malformed, bit-flipped); the cookie-bearing request itself is sent to a RequireFullAuth route; storage faults are injected at the two token-table calls.",
         "remember.Middleware wraps the whole application; bounded depth, 2 accounts, 2 browsers"),
 "C12": ("model_checking", "4/C12", E1 + "; acceptance must come from the oracle's own unconsumed set and the accepted value's hash must be gone from the copy-semantics database after the response",
         "Generate / use / replay / clear / regenerate histories of one-time passwords, 2FA recovery codes, TOTP codes (with and without replay protection) and SMS codes are enumerated with foreign, stale, stored-hash and empty candidates.",
         "storage has database semantics; bounded depth, 2 accounts, 2 browsers"),
}
E2 = "complete bounded product (E2) executed on the real implementation and compared with a reference function"
CLAIMED.update({
 "C08": ("exploration", "4/C08", E2 + ": session contents x context pre-load x requirement bits x refusal mode x mount-path x Paths.Mount x API/form x paths x raw queries",
         "The full Cartesian product of everything the middleware's decision depends on (563k cases quick, 768k thorough incl. the deprecated boolean entry points) is run through the real MountedMiddleware2 inside LoadClientStateMiddleware and compared with a reference function for run / 404 / 401 / redirect (decoded redir parameter) / 500.",
         "for mountPathed=true only clean paths are used"),
 "C09": ("model_checking", "4/C09", E1 + "; reference idle clock advanced on the same history",
         "All login / request / app-key / logout sequences with clock advances on either side of ExpireAfter, for several ExpireAfter values and whitelists; every request from a session with a user is compared with the reference clock: what the downstream handler can read, what the response leaves in the jar, and whether the deadline is pushed.",
         "whole-second clock; a gap of exactly ExpireAfter is not asserted; only EventAuth logins"),
 "C10": ("model_checking", "4/C10", E1 + " collecting every reachable session shape with all modules loaded; from every distinct state a logout with each HTTP method runs on a clone",
         "Every session state reachable by any history of the other flows (logged in, half-authed, mid-2FA of both kinds, mid-enrolment of both kinds, mid-OAuth2, mid-e-mail-verification, expired, cookie only, application keys) is logged out of, over a grid of whitelists and configured methods; afterwards the jar holds only whitelisted keys (and the response's own flash), the cookie is gone, the next requests are unauthenticated and a pending second factor cannot be continued.",
         "flash keys written by the logout response itself are part of the response; one browser"),
 "C11": ("exploration", "4/C11", E2 + ": ALL handler programs up to length 7 (quick; 6.9e7 incl. store-failure variants) / 8 (thorough; 8.9e8) over 13 operations",
         "Every sequence of put / delete / delete-all on either store, reads, header writes, body writes and two kinds of response-writer wrappers runs inside the real LoadClientStateMiddleware with recording stores sharing one timeline with the underlying writer; compared with reference list semantics; shorter programs are additionally run with a failing session or cookie store (delivered at most once, never after the first byte).",
         "http.ResponseController.Flush is outside the alphabet"),
 "C13": ("model_checking", "4/C13", E1 + "; oracle diffs every account's 2FA fields around every request and demands session kind and proof from ground truth",
         "Every 2FA settings route (setup / confirm / remove / regen / e-mail verify, TOTP and SMS) is driven from fully authenticated, half-authenticated (incl. the first request that carries only the cookie), pending and anonymous sessions with code and token alphabets, with e-mail authorisation on and off, two refusal modes and (thorough) an error handler that renders a response.",
         "SMS removal: any code the library sent to the registered number in this session; bounded depth"),
 "C14": ("model_checking", "4/C14", E1 + " over start/callback interleavings of two browsers and two providers; plus the complete PID codec product",
         "All interleavings of OAuth2 start and callback requests with state in {own, other browser's, previous, empty, garbage}, codes incl. provider uids containing the PID separator, and provider errors; a login requires the session's own unused state, spends it, and binds exactly the (provider, uid) the provider reported; the codec product shows injectivity and round trip.",
         "'state spent' only asserted for answered callbacks (silent error handler writes nothing)"),
 "C15": ("exploration", "4/C15", E2 + ": every return-target string up to 3 (thorough 4) tokens over a 22-token alphabet on every flow that follows it; WHATWG-faithful resolver as the oracle",
         "All short strings over slashes, backslashes, mixed-case schemes, javascript:, hosts, userinfo, dots, percent-encoded separators, TAB / LF / space, './' and '../' are submitted as the redirect parameter of the password, OTP, TOTP, SMS, hijack round-trip and OAuth2 round-trip flows (form field and query, form and JSON mode, http and https site); the emitted Location / JSON location is resolved the way a browser does.",
         "resolver is conservative (unparsable = same-site); safety only"),
 "C16": ("model_checking", "4/C16", E1 + " collecting account states x paired runs on clones (E4) compared byte for byte",
         "From every reachable account state (attempt counters, locked / expired lock / never locked, with and without TOTP, outstanding OTPs) in several module subsets and both lock/confirm orders, form and JSON, the three request pairs of the statement (plus variants with rm and with a return target) run on two clones; status, header map, body, session-jar delta and cookie-jar delta must be identical.",
         "timing out of scope; pair (c) only where the lock automaton says the attempt does not lock"),
 "C17": ("model_checking", "4/C17", E1 + " over the union of successful and failing steps of every flow; substring scan of all stored fields and of each transition's log lines for every plaintext the oracle knows",
         "All-modules histories (form and JSON) including near-miss inputs a user really produces; after every transition passwords, OTPs, recovery codes, remember cookies and mailed tokens (also URL-encoded and unpadded spellings) are searched for in every stored field, the remember table and the log, and token mails are checked against the owner's addresses.",
         "TOTP secrets / session-held SMS and e-mail-verify values outside the statement; of the backends only the mailer and the mail templates are made to fail; no malformed percent-escapes in this alphabet"),
 "C18": ("fault_enumeration", "4/C18", "fault enumeration (E3): every backend call of every request of scripted tours through all handlers is failed in turn, each error kind, both error handlers; four oracles incl. credential-acceptance probes on clones",
         "For each request of tours covering every handler of every flow, each storage / hasher / renderer / SMS call it makes fails once (generic error and the interface's not-found sentinel) under the silent and the 500-writing handler: no panic, success implies saved, a session issued on a one-time credential implies its durable consumption, and no credential becomes acceptable that was not before and is not after the same request without the failure.",
         "quick: single faults, thorough: also pairs within one request; mailer and client-state store failures not injected (the statement names storage, hasher, renderer, SMS sender)"),
 "C19": ("exploration", "4/C19", E2 + ": complete product of registration bodies against a reference validator; Rules.IsValid against an independent reference for all strings up to a length x a rule grid",
         "Every combination of email / password / confirm_password classes and every subset of seven hostile extra fields, from an empty table, a populated one and one holding the account unconfirmed, with and without confirm, form and JSON, two whitelists, each valid request also with every backend call failing in turn; plus 3.3e8 (thorough) rule evaluations.",
         "byte lengths, ASCII class representatives"),
 "C20": ("model_checking", "4/C20", "controlled scheduler (E5): stateless DFS over ALL schedules with at most 1 (quick) / 2 (thorough) preemptions at the harness seams, run directly on the real instance; solo-run equivalence, deadlock and tracked-cell oracles; plus a free-running Go race detector pass over all script pairs",
         "Six client scripts (register>confirm>login, refused>login(rm)>restart>open, recover, e-mail verify, OTP, OAuth2 round trip) run as logical threads on one initialised instance with the shipped router, body reader, responder, redirector, logger and both shipped mailers (LogMailer into a byte sink, SMTPMailer through an in-memory net/smtp), per-client template data, mail goroutines included; every schedule within the preemption bound is executed and each client's transcript (responses, session, own rows, mails byte for byte) must equal its solo run; the same bodies run free under -race, once aligned on a shared world and then with a private world per client so that the harness orders no two clients for the detector.",
         "scheduling points at seams (storer, mailer/SMTP, SMS, client state, crypto/rand before and after, mutexes, goroutine spawn, tracked cells); finer memory orderings are the race detector's part"),
})
NA = {}

checks = []
for p in props:
    i = p["id"]
    if i in CLAIMED:
        cat, ref, tech, text, note = CLAIMED[i]
        checks.append({
            "property_id": i,
            "quick_cmd": f"bin/vcheck {i} quick",
            "thorough_cmd": f"bin/vcheck {i} thorough",
            "evidence_file": f"/verif/evidence/{i}.json",
            "replay_cmd_template": "bin/vcheck --replay {path}",
            "engine": "harness",
            "level_claimed": {"category": cat, "text": text, "design_ref": "DESIGN.md section " + ref},
            "level_note": note,
            "technique": tech,
        })
na = [{"property_id": p["id"], "reason": NA.get(p["id"], "check not built yet (work in progress); will be claimed once its exhaustive exploration exists")}
      for p in props if p["id"] not in CLAIMED]
m = {
 "version": 1,
 "setup_cmd": "bin/setup",
 "hooks": {"guard": "verif",
           "enable": "no source hooks in /repo: seams (virtual clock, bcrypt cost, scheduler) are inserted at build time by go build -overlay generated from the current tree (bin/build, DESIGN.md 2.1)",
           "baseline_off_cmd": "cd /repo && GOFLAGS=-mod=mod GOPROXY=off GOSUMDB=off GOTOOLCHAIN=local go test -json -vet=off -count=1 -timeout 25m ./...",
           "source_commits": [], "add_only": True},
 "engines": [{"name": "harness", "path": "/verif/harness", "serves_properties": sorted(CLAIMED),
              "kind_free_text": "hand-written explicit-state (E1) / product (E2) / fault (E3) / paired-run (E4) / schedule (E5) explorers driving the real authboss handlers inside a closed, clonable world; harness/engine"}],
 "checks": checks,
 "notes": "All checks are bounded-exhaustive enumerations executed on the real implementation; see DESIGN.md.",
 "not_applicable": na,
}
json.dump(m, open(os.path.join(root, "MANIFEST.json"), "w"), indent=1)
print("claimed", len(checks), "not_applicable", len(na))
