#!/usr/bin/env python3
"""Fill DESIGN.md section 12 tables from matrix logs: bin/filltables.py <log> [<log>...]"""
import sys, json, os, re
rows = {}
for f in sys.argv[1:]:
    for line in open(f):
        m = re.match(r'^(C\d+)\s+(\S+)\s+(exit=\d+)?\s*(.*)$', line.rstrip())
        if m: rows[m.group(2)] = (m.group(1), m.group(3) or '', m.group(4))
sys.path.insert(0, '/verif/mutants'); import defs
notes = {m[0]: m[5] for m in defs.M}
seed = ["| change | property | what it needs to manifest | quick check result | first signature |", "|---|---|---|---|---|"]
LIMITS = {'C17b-r8', 'C05b-r9', 'C06a-r9'}
for d in sorted(os.listdir('/verif/seeded')):
    if not os.path.isdir(f'/verif/seeded/{d}'): continue
    meta = json.load(open(f'/verif/seeded/{d}/meta.json'))
    key = f'seeded/{d}/patch.diff'
    pid, rc, sig = rows.get(key, (d[:3], '?', ''))
    res = {'exit=1': 'VIOLATION', 'exit=0': 'no alarm (neutralised by a repair, see below)', '': 'patch no longer applies (neutralised by a repair)', 'exit=3': 'patch no longer applies (neutralised by a repair, see below)'}.get(rc, rc)
    if d in LIMITS and rc in ('exit=0', 'exit=2'): res = 'not reported (stated limit of the harness, see the round notes below)'
    needs = meta.get('needs', '').replace('|', '/').replace('\n', ' ')
    if len(needs) > 230: needs = needs[:227] + '…'
    seed.append(f"| `seeded/{d}` | {pid} | {needs} | {res} | `{sig}` |")
mut = ["| mutant | property | change | quick check result | first signature |", "|---|---|---|---|---|"]
for k in sorted(rows):
    if not k.startswith('mutants/'): continue
    pid, rc, sig = rows[k]
    mid = os.path.basename(k)[:-5]
    if not os.path.exists('/verif/' + k): continue
    mut.append(f"| `{mid}` | {pid} | {notes.get(mid, '')} | {'VIOLATION' if rc == 'exit=1' else rc} | `{sig}` |")
s = open('/verif/DESIGN.md').read()
def put(tag, table):
    global s
    b, e = f'<!-- {tag}:begin -->', f'<!-- {tag}:end -->'
    block = b + '\n' + '\n'.join(table) + '\n' + e
    if b in s:
        s = s[:s.index(b)] + block + s[s.index(e) + len(e):]
    else:
        s = s.replace('@@' + tag + '@@', block)
put('SEEDTABLE', seed); put('MUTTABLE', mut)
open('/verif/DESIGN.md', 'w').write(s)
print(len(seed) - 2, 'seeded,', len(mut) - 2, 'mutants')
