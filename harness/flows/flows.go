// Package flows holds the request templates (what a browser sends for each
// authboss flow), the environment steps, and the seeding of initial worlds.
// Every request goes through Exec, which also lets the oracle's memory observe
// what was issued.
package flows

import (
	"context"
	"crypto/rand"
	"fmt"
	"net/url"
	"strings"
	"time"

	"github.com/pquerna/otp/totp"
	"verif/engine"
	"verif/shim/vbcrypt"
	"verif/shim/vtime"
	"verif/world"
)

// Bind points the process-global seams (clock, crypto/rand) at w.
func Bind(s *world.Stack, w *world.World) {
	s.W = w
	vtime.Set(w.Now)
	rand.Reader = world.ReaderOf(s)
}

// Exec runs one request and updates the oracle's memory:
// issuance is observed from the outputs, consumption of remember cookies from
// the request itself (a presented cookie is spent whether or not it was good),
// revocation of remember cookies from a stored-password change, removal of
// OTPs / recovery codes from storage.
func Exec(s *world.Stack, w *world.World, rq world.Req, forPID string) *world.Obs {
	prePw := map[string]string{}
	for pid, r := range w.DB.Users {
		prePw[pid] = r.Password
	}
	o := s.Do(w, rq)
	t := w.Truth
	if s.Cfg.Has("remember") && o.UIDBefore() == "" {
		if c := o.CookBefore["rm"]; c != "" {
			if sec := t.ByVal("rm", c); sec != nil && !sec.Dead {
				spent := true
				if len(o.FaultFired) > 0 {
					// a backend failure may have stopped the request before the token was
					// consumed: then (and only then) storage decides
					h, _ := world.RememberHash(c)
					spent = true
					for _, l := range w.DB.Tokens {
						for _, th := range l {
							if th == h {
								spent = false
							}
						}
					}
				}
				if spent {
					sec.Dead, sec.Why, sec.Used = true, "used", true
				}
			}
		}
	}
	// a one-time credential that produced a session is spent for good, whatever storage says
	if u2 := o.UIDAfter(); u2 != "" && u2 != o.UIDBefore() {
		switch o.Req.Tag.Kind {
		case "otplogin":
			if sec := t.ByVal("otp", o.Req.Tag.Secret); sec != nil && !sec.Dead && sec.Owner == u2 && o.Req.Tag.PID == u2 {
				sec.Dead, sec.Why, sec.Used = true, "used", true
			}
		case "totp_validate", "sms_validate":
			if rc := o.Req.Tag.Recovery; rc != "" {
				pend := o.SessBefore["totp_pending"]
				if o.Req.Tag.Kind == "sms_validate" {
					pend = o.SessBefore["sms_pending"]
				}
				if sec := t.ByVal("rc", rc); sec != nil && !sec.Dead && sec.Owner == u2 && pend == u2 {
					sec.Dead, sec.Why, sec.Used = true, "used", true
				}
			}
		}
	}
	if o.Req.Tag.Kind == "otplogin" {
		// an OTP that was accepted as the first factor of a 2FA login (the login is parked) is spent too
		owner := o.Req.Tag.PID
		parked := (o.SessAfter["totp_pending"] == owner && o.SessBefore["totp_pending"] != owner) || (o.SessAfter["sms_pending"] == owner && o.SessBefore["sms_pending"] != owner)
		if sec := t.ByVal("otp", o.Req.Tag.Secret); parked && owner != "" && sec != nil && !sec.Dead && sec.Owner == owner {
			sec.Dead, sec.Why, sec.Used = true, "used", true
		}
	}
	if o.Req.Tag.Kind == "recover_end" {
		if sec := t.ByVal("rtok", o.Req.Tag.Secret); sec != nil && !sec.Dead {
			if r, ok := w.DB.Users[sec.Owner]; ok && prePw[sec.Owner] != r.Password {
				sec.Dead, sec.Why, sec.Used = true, "used", true
			}
		}
	}
	t.ObserveIssuance(nil, o, w, forPID)
	notePasswordChanges(w, prePw)
	t.ObserveStorage(w)
	t.Prune(1)
	return o
}

func notePasswordChanges(w *world.World, prePw map[string]string) {
	for pid, r := range w.DB.Users {
		if old, ok := prePw[pid]; ok && old != r.Password {
			w.Truth.Kill("rm", pid, "revoked")
		}
	}
}

func mount(s *world.Stack) string { return s.AB.Config.Paths.Mount }

// Req builders ---------------------------------------------------------------

func Login(s *world.Stack, b, pid, pw string, rm bool) world.Req {
	f := map[string]string{"email": pid, "password": pw}
	if rm {
		f["rm"] = "true"
	}
	return world.Req{Browser: b, Method: "POST", Path: mount(s) + "/login", Form: f, Tag: world.Tag{Kind: "login", PID: pid, Secret: pw, RM: rm}}
}

func OTPLogin(s *world.Stack, b, pid, otp string, rm bool) world.Req {
	f := map[string]string{"email": pid, "password": otp}
	if rm {
		f["rm"] = "true"
	}
	return world.Req{Browser: b, Method: "POST", Path: mount(s) + "/otp/login", Form: f, Tag: world.Tag{Kind: "otplogin", PID: pid, Secret: otp, RM: rm}}
}

func OTPAdd(s *world.Stack, b string) world.Req {
	return world.Req{Browser: b, Method: "POST", Path: mount(s) + "/otp/add", Tag: world.Tag{Kind: "otp_add"}}
}

func OTPClear(s *world.Stack, b string) world.Req {
	return world.Req{Browser: b, Method: "POST", Path: mount(s) + "/otp/clear", Tag: world.Tag{Kind: "otp_clear"}}
}

func Logout(s *world.Stack, b string) world.Req {
	m := s.AB.Config.Modules.LogoutMethod
	return world.Req{Browser: b, Method: m, Path: mount(s) + "/logout", Tag: world.Tag{Kind: "logout"}}
}

func Register(s *world.Stack, b string, fields map[string]string) world.Req {
	return world.Req{Browser: b, Method: "POST", Path: mount(s) + "/register", Form: fields, Tag: world.Tag{Kind: "register", PID: fields["email"], Secret: fields["password"]}}
}

func Confirm(s *world.Stack, b, token string) world.Req {
	if s.AB.Config.Modules.MailRouteMethod == "POST" {
		return world.Req{Browser: b, Method: "POST", Path: mount(s) + "/confirm", Form: map[string]string{"cnf": token}, Tag: world.Tag{Kind: "confirm", Secret: token}}
	}
	return world.Req{Browser: b, Method: "GET", Path: mount(s) + "/confirm?cnf=" + url.QueryEscape(token), Tag: world.Tag{Kind: "confirm", Secret: token}}
}

func RecoverStart(s *world.Stack, b, pid string) world.Req {
	return world.Req{Browser: b, Method: "POST", Path: mount(s) + "/recover", Form: map[string]string{"email": pid}, Tag: world.Tag{Kind: "recover_start", PID: pid}}
}

func RecoverEnd(s *world.Stack, b, token, pw string) world.Req {
	return world.Req{Browser: b, Method: "POST", Path: mount(s) + "/recover/end", Form: map[string]string{"token": token, "password": pw, "confirm_password": pw}, Tag: world.Tag{Kind: "recover_end", Secret: token, Code: pw}}
}

func TOTPSetup(s *world.Stack, b string) world.Req {
	return world.Req{Browser: b, Method: "POST", Path: mount(s) + "/2fa/totp/setup", Tag: world.Tag{Kind: "totp_setup"}}
}

func codeForm(code, rec string) map[string]string {
	f := map[string]string{}
	if code != "" {
		f["code"] = code
	}
	if rec != "" {
		f["recovery_code"] = rec
	}
	return f
}

func TOTPConfirm(s *world.Stack, b, code string) world.Req {
	return world.Req{Browser: b, Method: "POST", Path: mount(s) + "/2fa/totp/confirm", Form: codeForm(code, ""), Tag: world.Tag{Kind: "totp_confirm", Secret: code}}
}

func TOTPRemove(s *world.Stack, b, code, rec string) world.Req {
	return world.Req{Browser: b, Method: "POST", Path: mount(s) + "/2fa/totp/remove", Form: codeForm(code, rec), Tag: world.Tag{Kind: "totp_remove", Secret: code, Recovery: rec}}
}

func TOTPValidate(s *world.Stack, b, code, rec string) world.Req {
	return world.Req{Browser: b, Method: "POST", Path: mount(s) + "/2fa/totp/validate", Form: codeForm(code, rec), Tag: world.Tag{Kind: "totp_validate", Secret: code, Recovery: rec}}
}

func SMSSetup(s *world.Stack, b, number string) world.Req {
	return world.Req{Browser: b, Method: "POST", Path: mount(s) + "/2fa/sms/setup", Form: map[string]string{"phone_number": number}, Tag: world.Tag{Kind: "sms_setup", Secret: number}}
}

func SMSConfirm(s *world.Stack, b, code string) world.Req {
	return world.Req{Browser: b, Method: "POST", Path: mount(s) + "/2fa/sms/confirm", Form: codeForm(code, ""), Tag: world.Tag{Kind: "sms_confirm", Secret: code}}
}

func SMSRemove(s *world.Stack, b, code, rec string) world.Req {
	return world.Req{Browser: b, Method: "POST", Path: mount(s) + "/2fa/sms/remove", Form: codeForm(code, rec), Tag: world.Tag{Kind: "sms_remove", Secret: code, Recovery: rec}}
}

func SMSValidate(s *world.Stack, b, code, rec string) world.Req {
	return world.Req{Browser: b, Method: "POST", Path: mount(s) + "/2fa/sms/validate", Form: codeForm(code, rec), Tag: world.Tag{Kind: "sms_validate", Secret: code, Recovery: rec}}
}

func Regen(s *world.Stack, b string) world.Req {
	return world.Req{Browser: b, Method: "POST", Path: mount(s) + "/2fa/recovery/regen", Tag: world.Tag{Kind: "regen"}}
}

func VerifyStart(s *world.Stack, b, kind string) world.Req {
	return world.Req{Browser: b, Method: "POST", Path: mount(s) + "/2fa/" + kind + "/email/verify", Tag: world.Tag{Kind: "verify_start", Provider: kind}}
}

func VerifyEnd(s *world.Stack, b, kind, token string) world.Req {
	if s.AB.Config.Modules.MailRouteMethod == "POST" {
		return world.Req{Browser: b, Method: "POST", Path: mount(s) + "/2fa/" + kind + "/email/verify/end", Form: map[string]string{"token": token}, Tag: world.Tag{Kind: "verify_end", Provider: kind, Secret: token}}
	}
	return world.Req{Browser: b, Method: "GET", Path: mount(s) + "/2fa/" + kind + "/email/verify/end?token=" + url.QueryEscape(token), Tag: world.Tag{Kind: "verify_end", Provider: kind, Secret: token}}
}

func OAuthStart(s *world.Stack, b, provider, query string) world.Req {
	p := mount(s) + "/oauth2/" + provider
	if query != "" {
		p += "?" + query
	}
	return world.Req{Browser: b, Method: "GET", Path: p, ForceForm: true, Tag: world.Tag{Kind: "oauth_start", Provider: provider, Note: query}}
}

func OAuthCallback(s *world.Stack, b, provider, state, code, errp string) world.Req {
	v := url.Values{}
	if state != "" {
		v.Set("state", state)
	}
	if code != "" {
		v.Set("code", code)
	}
	if errp != "" {
		v.Set("error", errp)
	}
	return world.Req{Browser: b, Method: "GET", Path: mount(s) + "/oauth2/callback/" + provider + "?" + v.Encode(), ForceForm: true, Tag: world.Tag{Kind: "oauth_cb", Provider: provider, State: state, Code: code, Err: errp}}
}

func Open(b string) world.Req {
	return world.Req{Browser: b, Method: "GET", Path: "/app/open", ForceForm: true, Tag: world.Tag{Kind: "open"}}
}
func Prot(b string) world.Req {
	return world.Req{Browser: b, Method: "GET", Path: "/app/prot", ForceForm: true, Tag: world.Tag{Kind: "prot"}}
}

// NotModified requests the application route that answers 304.
func NotModified(b string) world.Req {
	return world.Req{Browser: b, Method: "GET", Path: "/app/notmodified", ForceForm: true, Header: map[string]string{"If-None-Match": `"v1"`}, Tag: world.Tag{Kind: "notmod"}}
}

// Guard requests the route wrapped by lock.Middleware / confirm.Middleware only.
func Guard(b string) world.Req {
	return world.Req{Browser: b, Method: "GET", Path: "/app/guard", ForceForm: true, Tag: world.Tag{Kind: "guard"}}
}

// GuardAt requests another path that is served behind the same two middlewares.
func GuardAt(b, path string) world.Req {
	return world.Req{Browser: b, Method: "GET", Path: path, ForceForm: true, Tag: world.Tag{Kind: "guard"}}
}
func Full(b string) world.Req {
	return world.Req{Browser: b, Method: "GET", Path: "/app/full", ForceForm: true, Tag: world.Tag{Kind: "full"}}
}
func Put(b, k, v string) world.Req {
	return world.Req{Browser: b, Method: "GET", Path: "/app/put?k=" + url.QueryEscape(k) + "&v=" + url.QueryEscape(v), ForceForm: true, Tag: world.Tag{Kind: "put"}}
}

// Action helpers ---------------------------------------------------------------

// A builds an engine action from a request template.
func A(name string, build func(s *world.Stack, w *world.World) world.Req, forPID string) engine.Action {
	return engine.Action{Name: name, Run: func(s *world.Stack, w *world.World) *world.Obs {
		return Exec(s, w, build(s, w), forPID)
	}}
}

// AFault is A with one backend call (the first with the given seam label) failing.
func AFault(name, label string, build func(s *world.Stack, w *world.World) world.Req) engine.Action {
	return engine.Action{Name: name + "!fault(" + label + ")", Run: func(s *world.Stack, w *world.World) *world.Obs {
		s.FaultLabel = label
		defer func() { s.FaultLabel = "" }()
		return Exec(s, w, build(s, w), "")
	}}
}

// AMailFault is A with every Mailer.Send of the request failing.
func AMailFault(name string, build func(s *world.Stack, w *world.World) world.Req, forPID string) engine.Action {
	return engine.Action{Name: name + "!fault(mailer.Send)", Run: func(s *world.Stack, w *world.World) *world.Obs {
		s.MailFault = true
		defer func() { s.MailFault = false }()
		return Exec(s, w, build(s, w), forPID)
	}}
}

// AMailRenderFault is A with the mail templates failing to render.
func AMailRenderFault(name string, build func(s *world.Stack, w *world.World) world.Req, forPID string) engine.Action {
	return engine.Action{Name: name + "!fault(mailrenderer.Render)", Run: func(s *world.Stack, w *world.World) *world.Obs {
		s.MailRenderFault = true
		defer func() { s.MailRenderFault = false }()
		return Exec(s, w, build(s, w), forPID)
	}}
}

// Env builds an environment step.
func Env(name string, f func(s *world.Stack, w *world.World)) engine.Action {
	return engine.Action{Name: name, Run: func(s *world.Stack, w *world.World) *world.Obs {
		Bind(s, w)
		w.Mails, w.SMS, w.Log = nil, nil, nil
		f(s, w)
		return nil
	}}
}

// Advance moves the virtual clock.
func Advance(d time.Duration) engine.Action {
	return Env(fmt.Sprintf("wait(%s)", d), func(s *world.Stack, w *world.World) { w.Now = w.Now.Add(d) })
}

// Restart drops a browser's session but keeps its cookies (browser restart).
func Restart(b string) engine.Action {
	return Env("restart("+b+")", func(s *world.Stack, w *world.World) { w.Browsers[b].Session = map[string]string{} })
}

// Steal copies the cookie jar of one browser into another.
func Steal(from, to string) engine.Action {
	return Env("steal("+from+"->"+to+")", func(s *world.Stack, w *world.World) {
		for k, v := range w.Browsers[from].Cookies {
			w.Browsers[to].Cookies[k] = v
		}
	})
}

// AdminLock is the administrator action lock.Lock.
func AdminLock(pid string) engine.Action {
	return Env("admin-lock("+pid+")", func(s *world.Stack, w *world.World) { _ = s.Lock.Lock(context.Background(), pid) })
}

// AdminUnlock is the administrator action lock.Unlock.
func AdminUnlock(pid string) engine.Action {
	return Env("admin-unlock("+pid+")", func(s *world.Stack, w *world.World) { _ = s.Lock.Unlock(context.Background(), pid) })
}

// AdminStartConfirm re-starts confirmation for an account.
func AdminStartConfirm(pid string) engine.Action {
	return engine.Action{Name: "admin-start-confirm(" + pid + ")", Run: func(s *world.Stack, w *world.World) *world.Obs {
		Bind(s, w)
		w.Mails, w.SMS, w.Log = nil, nil, nil
		u, err := s.AB.Config.Storage.Server.Load(context.Background(), pid)
		if err == nil {
			_ = s.Confirm.StartConfirmation(context.Background(), u.(interface {
				GetPID() string
				PutPID(string)
				GetEmail() string
				GetConfirmed() bool
				GetConfirmSelector() string
				GetConfirmVerifier() string
				PutEmail(string)
				PutConfirmed(bool)
				PutConfirmSelector(string)
				PutConfirmVerifier(string)
			}), true)
		}
		o := &world.Obs{Mails: w.Mails, Log: w.Log, SessBefore: map[string]string{}, SessAfter: map[string]string{}, CookBefore: map[string]string{}, CookAfter: map[string]string{}, Status: -2}
		w.Truth.ObserveIssuance(nil, o, w, pid)
		w.Truth.Prune(1)
		return nil
	}}
}

// AdminUpdatePassword is the programmatic password update.
func AdminUpdatePassword(pid, pw string) engine.Action {
	return Env("update-password("+pid+","+Label(pw)+")", func(s *world.Stack, w *world.World) {
		prePw := map[string]string{}
		for p, r := range w.DB.Users {
			prePw[p] = r.Password
		}
		u, err := s.AB.Config.Storage.Server.Load(context.Background(), pid)
		if err == nil {
			_ = s.AB.UpdatePassword(context.Background(), u.(interface {
				GetPID() string
				PutPID(string)
				GetPassword() string
				PutPassword(string)
			}), pw)
		}
		notePasswordChanges(w, prePw)
	})
}

// Label shortens a value for action names.
func Label(v string) string {
	if len(v) > 14 {
		return fmt.Sprintf("%s…(%d)", v[:6], len(v))
	}
	return fmt.Sprintf("%q", v)
}

// TOTPCode computes the code of secret at the world's current instant plus off.
func TOTPCode(w *world.World, secret string, off time.Duration) string {
	c, err := totp.GenerateCode(secret, w.Now.Add(off))
	if err != nil {
		return "000000"
	}
	return c
}

// Seeding ---------------------------------------------------------------------

// Acct describes an account created directly in the database for an initial state.
type Acct struct {
	PID, Password string
	Unconfirmed   bool
	TOTPSecret    string
	SMSNumber     string
	RecoveryCodes []string
	OTPs          []string
	Secondary     []string
	Seed          string
}

// Fixed material for seeded accounts (base32 TOTP secrets, code plaintexts).
var (
	TOTPSecrets = []string{"JBSWY3DPEHPK3PXPJBSWY3DPEHPK3PXP", "KRSXG5CTMVRXEZLUKRSXG5CTMVRXEZLU", "MFRGGZDFMZTWQ2LKMFRGGZDFMZTWQ2LK"}
)

// SeedAcct inserts an account and registers its secrets with the oracle.
func SeedAcct(s *world.Stack, w *world.World, a Acct) {
	Bind(s, w)
	h, err := vbcrypt.GenerateFromPassword([]byte(a.Password), 4)
	if err != nil {
		panic(err)
	}
	r := world.Row{PID: a.PID, Email: a.PID, Password: string(h), Confirmed: !a.Unconfirmed,
		TOTPSecretKey: a.TOTPSecret, SMSPhoneNumber: a.SMSNumber, SecondaryEmails: a.Secondary, SMSSeed: a.Seed}
	var hs []string
	for _, c := range a.RecoveryCodes {
		hc, _ := vbcrypt.GenerateFromPassword([]byte(c), 4)
		hs = append(hs, string(hc))
		w.Truth.Add(world.Secret{Kind: "rc", Owner: a.PID, Val: c, At: w.Now})
	}
	r.RecoveryCodes = strings.Join(hs, ",")
	var os []string
	for _, o := range a.OTPs {
		os = append(os, world.B64Sha512(o))
		w.Truth.Add(world.Secret{Kind: "otp", Owner: a.PID, Val: o, At: w.Now})
	}
	r.OTPs = strings.Join(os, ",")
	w.DB.Users[a.PID] = r
}
