// Package vmrand is math/rand whose *Rand is a tracked cell: every method is
// bracketed by vsched.Enter/Leave so that the schedule explorer sees two
// requests inside the same unsynchronised generator. Free-running it is the
// real generator (so the Go race detector sees the real accesses).
package vmrand

import (
	orig "math/rand"

	"verif/shim/vsched"
)

// Rand wraps *rand.Rand.
type Rand struct{ r *orig.Rand }

// New mirrors rand.New.
func New(src orig.Source) *Rand { return &Rand{r: orig.New(src)} }

func (r *Rand) w(label string) func() {
	vsched.Enter(r, true, "math/rand.Rand."+label)
	return func() { vsched.Leave(r, true) }
}

func (r *Rand) Int() int                 { defer r.w("Int")(); return r.r.Int() }
func (r *Rand) Intn(n int) int           { defer r.w("Intn")(); return r.r.Intn(n) }
func (r *Rand) Int31() int32             { defer r.w("Int31")(); return r.r.Int31() }
func (r *Rand) Int31n(n int32) int32     { defer r.w("Int31n")(); return r.r.Int31n(n) }
func (r *Rand) Int63() int64             { defer r.w("Int63")(); return r.r.Int63() }
func (r *Rand) Int63n(n int64) int64     { defer r.w("Int63n")(); return r.r.Int63n(n) }
func (r *Rand) Uint32() uint32           { defer r.w("Uint32")(); return r.r.Uint32() }
func (r *Rand) Uint64() uint64           { defer r.w("Uint64")(); return r.r.Uint64() }
func (r *Rand) Float32() float32         { defer r.w("Float32")(); return r.r.Float32() }
func (r *Rand) Float64() float64         { defer r.w("Float64")(); return r.r.Float64() }
func (r *Rand) ExpFloat64() float64      { defer r.w("ExpFloat64")(); return r.r.ExpFloat64() }
func (r *Rand) NormFloat64() float64     { defer r.w("NormFloat64")(); return r.r.NormFloat64() }
func (r *Rand) Perm(n int) []int         { defer r.w("Perm")(); return r.r.Perm(n) }
func (r *Rand) Read(p []byte) (int, error) { defer r.w("Read")(); return r.r.Read(p) }
func (r *Rand) Seed(seed int64)          { defer r.w("Seed")(); r.r.Seed(seed) }
func (r *Rand) Shuffle(n int, swap func(i, j int)) { defer r.w("Shuffle")(); r.r.Shuffle(n, swap) }
