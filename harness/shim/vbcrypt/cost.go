// Package vbcrypt is golang.org/x/crypto/bcrypt with DefaultCost lowered to
// MinCost (twofactor.BCryptRecoveryCodes hard-codes bcrypt.DefaultCost, which
// costs ~60ms per code), and with a record of which plaintext produced which
// hash so that the harness can canonicalise salted hashes in state keys.
// Everything else is the real package.
package vbcrypt

import (
	"sync"

	orig "golang.org/x/crypto/bcrypt"
)

// DefaultCost is lowered; hashes remain genuine bcrypt hashes.
const DefaultCost = orig.MinCost

var (
	mu     sync.Mutex
	record = map[string]string{}
)

// GenerateFromPassword is the real function plus a (hash -> plaintext) record.
func GenerateFromPassword(password []byte, cost int) ([]byte, error) {
	h, err := orig.GenerateFromPassword(password, cost)
	if err == nil {
		mu.Lock()
		record[string(h)] = string(password)
		mu.Unlock()
	}
	return h, err
}

// Plain returns the plaintext recorded for a hash produced in this process.
func Plain(hash string) (string, bool) {
	mu.Lock()
	defer mu.Unlock()
	p, ok := record[hash]
	return p, ok
}

// Note records a (hash -> plaintext) pair produced elsewhere (e.g. restored state).
func Note(hash, plain string) {
	mu.Lock()
	record[hash] = plain
	mu.Unlock()
}

// Reset forgets all recorded pairs.
func Reset() {
	mu.Lock()
	record = map[string]string{}
	mu.Unlock()
}
