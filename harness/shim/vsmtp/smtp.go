// Package vsmtp is net/smtp with SendMail delivering into the harness.
package vsmtp

import (
	"errors"
	orig "net/smtp"
	"sync"
)

var (
	mu      sync.Mutex
	deliver func(addr, from string, to []string, msg []byte) error
)

// SetDeliver installs the in-memory delivery function.
func SetDeliver(f func(addr, from string, to []string, msg []byte) error) {
	mu.Lock()
	deliver = f
	mu.Unlock()
}

// SendMail never opens a socket.
func SendMail(addr string, a orig.Auth, from string, to []string, msg []byte) error {
	mu.Lock()
	f := deliver
	mu.Unlock()
	if f == nil {
		return errors.New("vsmtp: no delivery function installed")
	}
	return f(addr, from, append([]string(nil), to...), append([]byte(nil), msg...))
}
