// Package vsync is package sync with mutexes that cooperate with the
// controlled scheduler (a real mutex would block the only running goroutine).
// Free-running they are the real thing.
package vsync

import (
	orig "sync"

	"verif/shim/vsched"
)

// Mutex is sync.Mutex, scheduler-aware.
type Mutex struct{ m orig.Mutex }

func (m *Mutex) Lock() {
	if vsched.Lock(m) {
		return
	}
	m.m.Lock()
}

func (m *Mutex) Unlock() {
	if vsched.Unlock(m) {
		return
	}
	m.m.Unlock()
}

func (m *Mutex) TryLock() bool { return m.m.TryLock() }

// RWMutex is treated as an exclusive lock under the scheduler (sound: fewer
// behaviours are never added, readers simply do not overlap).
type RWMutex struct{ m orig.RWMutex }

func (m *RWMutex) Lock() {
	if vsched.Lock(m) {
		return
	}
	m.m.Lock()
}
func (m *RWMutex) Unlock() {
	if vsched.Unlock(m) {
		return
	}
	m.m.Unlock()
}
func (m *RWMutex) RLock() {
	if vsched.Lock(m) {
		return
	}
	m.m.RLock()
}
func (m *RWMutex) RUnlock() {
	if vsched.Unlock(m) {
		return
	}
	m.m.RUnlock()
}
