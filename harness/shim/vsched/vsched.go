// Package vsched is the seam between library code and the controlled
// scheduler (engine E5). Free-running (no scheduler installed) every function
// degenerates to the plain Go construct, so the same overlay is used for the
// -race pass.
package vsched

import "sync"

// Hooks is installed by the schedule explorer; nil means free-running.
type Hooks struct {
	Spawn func(f func())               // register and start a new logical thread
	Point func(label string)           // scheduling point
	Lock  func(m interface{})          // cooperative mutex acquire
	Unlock func(m interface{})
	Enter func(cell interface{}, write bool, label string) // tracked-cell access begins
	Leave func(cell interface{}, write bool)
}

var (
	mu sync.RWMutex
	h  *Hooks
)

// Install sets (or clears, with nil) the scheduler hooks.
func Install(x *Hooks) { mu.Lock(); h = x; mu.Unlock() }

func cur() *Hooks { mu.RLock(); defer mu.RUnlock(); return h }

// Go replaces the `go` statement in library code.
func Go(f func()) {
	if x := cur(); x != nil && x.Spawn != nil {
		x.Spawn(f)
		return
	}
	go f()
}

// Point is a scheduling point.
func Point(label string) {
	if x := cur(); x != nil && x.Point != nil {
		x.Point(label)
	}
}

// Lock / Unlock back vsync.Mutex.
func Lock(m interface{}) bool {
	if x := cur(); x != nil && x.Lock != nil {
		x.Lock(m)
		return true
	}
	return false
}

// Unlock releases a cooperative mutex; reports whether a scheduler handled it.
func Unlock(m interface{}) bool {
	if x := cur(); x != nil && x.Unlock != nil {
		x.Unlock(m)
		return true
	}
	return false
}

// Enter / Leave bracket an access to a tracked cell (an object the library
// shares between requests without synchronisation of its own).
func Enter(cell interface{}, write bool, label string) {
	if x := cur(); x != nil && x.Enter != nil {
		x.Enter(cell, write, label)
	}
}

// Leave ends a tracked-cell access.
func Leave(cell interface{}, write bool) {
	if x := cur(); x != nil && x.Leave != nil {
		x.Leave(cell, write)
	}
}
