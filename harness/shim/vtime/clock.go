// Package vtime is a drop-in replacement for package time whose clock the
// harness controls. Library files are compiled (through go build -overlay)
// with `time "verif/shim/vtime"`, so every time.Now() in authboss reads the
// virtual clock. All other identifiers are re-exported unchanged
// (zz_generated.go).
package vtime

import (
	orig "time"
	"sync/atomic"
)

// virtual clock in unix nanoseconds; 0 means "not set: use the real clock"
var cur atomic.Int64

// reads counts calls to Now (evidence that the seam is live)
var reads atomic.Int64

// Set sets the virtual clock.
func Set(t orig.Time) { cur.Store(t.UnixNano()) }

// Unset returns to the real clock.
func Unset() { cur.Store(0) }

// Reads returns the number of times the library read the clock.
func Reads() int64 { return reads.Load() }

// NoCount switches the read counter off (set before any goroutine is started and never
// afterwards): in the free-running race pass an atomic counter shared by all requests would
// order them for the race detector and hide races in the library.
var NoCount bool

// Now returns the virtual time (UTC, no monotonic reading).
func Now() orig.Time {
	if !NoCount {
		reads.Add(1)
	}
	n := cur.Load()
	if n == 0 {
		return orig.Now()
	}
	return orig.Unix(0, n).UTC()
}

// Since is time.Since against the virtual clock.
func Since(t orig.Time) orig.Duration { return Now().Sub(t) }

// Until is time.Until against the virtual clock.
func Until(t orig.Time) orig.Duration { return t.Sub(Now()) }
