package props

import (
	"fmt"
	"time"

	"verif/engine"
	"verif/flows"
	"verif/world"
)

func init() {
	engine.Register(&engine.Property{ID: "SMOKE", Level: "model_checking", Rule: "fixed path", Units: func(string) []engine.Unit {
		return []engine.Unit{{Name: "smoke", Run: func(time.Time) engine.UnitResult {
			cfg := world.Config{Name: "smoke", Modules: []string{"auth", "otp", "remember", "logout", "register", "confirm", "recover", "lock", "oauth2", "totp2fa", "sms2fa", "recovery"}, RecoverLoginAfter: true}
			s, err := world.NewStack(cfg)
			if err != nil {
				panic(err)
			}
			w := world.NewWorld("B1", "B2")
			flows.SeedAcct(s, w, flows.Acct{PID: "u1@x.io", Password: "Passw0rd!1"})
			show := func(o *world.Obs) {
				fmt.Fprintln(logw, o.Brief(), "| body:", o.Body)
				for _, m := range o.Mails {
					fmt.Fprintln(logw, "   mail to", m.To, m.Text)
				}
				for _, m := range o.SMS {
					fmt.Fprintln(logw, "   sms", m)
				}
				for _, l := range o.Log {
					fmt.Fprint(logw, "   log ", l)
				}
			}
			show(flows.Exec(s, w, flows.Register(s, "B1", map[string]string{"email": "n@x.io", "password": "Abcdef1!", "confirm_password": "Abcdef1!"}), "n@x.io"))
			tok := w.Truth.Newest("ctok", "n@x.io", false)
			show(flows.Exec(s, w, flows.Confirm(s, "B1", tok.Val), ""))
			show(flows.Exec(s, w, flows.Login(s, "B1", "n@x.io", "Abcdef1!", true), ""))
			show(flows.Exec(s, w, flows.OTPAdd(s, "B1"), ""))
			show(flows.Exec(s, w, flows.TOTPSetup(s, "B1"), ""))
			sec := w.Browsers["B1"].Session["totp_secret"]
			show(flows.Exec(s, w, flows.TOTPConfirm(s, "B1", flows.TOTPCode(w, sec, 0)), ""))
			show(flows.Exec(s, w, flows.Logout(s, "B1"), ""))
			show(flows.Exec(s, w, flows.Login(s, "B1", "n@x.io", "Abcdef1!", false), ""))
			show(flows.Exec(s, w, flows.TOTPValidate(s, "B1", flows.TOTPCode(w, sec, 0), ""), ""))
			show(flows.Exec(s, w, flows.Prot("B1"), ""))
			show(flows.Exec(s, w, flows.RecoverStart(s, "B2", "u1@x.io"), "u1@x.io"))
			rt := w.Truth.Newest("rtok", "u1@x.io", false)
			show(flows.Exec(s, w, flows.RecoverEnd(s, "B2", rt.Val, "Newpass1!x"), ""))
			show(flows.Exec(s, w, flows.OAuthStart(s, "B2", "google", "rm=true"), ""))
			show(flows.Exec(s, w, flows.Logout(s, "B2"), ""))
			show(flows.Exec(s, w, flows.OAuthStart(s, "B2", "google", "rm=true"), ""))
			show(flows.Exec(s, w, flows.OAuthCallback(s, "B2", "google", w.Browsers["B2"].Session["oauth2_state"], "c:77", ""), ""))
			show(flows.Exec(s, w, flows.SMSSetup(s, "B1", "+15551"), ""))
			fmt.Fprintln(logw, w.Canon(13*time.Hour))
			return engine.UnitResult{Exhaustive: true}
		}}}
	}})
}
