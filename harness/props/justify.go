package props

import (
	"encoding/base64"
	"strings"
	"time"

	"github.com/volatiletech/authboss/v3"
	"verif/flows"
	"verif/world"
)

// totpValidFor reports whether code is a currently valid TOTP code of secret
// (period 30s, one step of skew either side, as pquerna/otp's Validate).
func totpValidFor(w *world.World, secret, code string) bool {
	if secret == "" || code == "" {
		return false
	}
	for _, off := range []time.Duration{-30 * time.Second, 0, 30 * time.Second} {
		if flows.TOTPCode(w, secret, off) == code {
			return true
		}
	}
	return false
}

// sameTokenBytes reports whether the submitted string decodes (base64url) to
// the same bytes as the issued token: "alternative base64 spellings of the
// same bytes count as the same token".
func sameTokenBytes(submitted, issued string) bool {
	if submitted == issued {
		return true
	}
	a, err1 := base64.URLEncoding.DecodeString(submitted)
	b, err2 := base64.URLEncoding.DecodeString(issued)
	return err1 == nil && err2 == nil && string(a) == string(b)
}

// liveRecoverToken returns the live, unexpired recovery token of the truth
// that submitted denotes, or nil.
func liveRecoverToken(pre *world.World, submitted string, validity time.Duration) *world.Secret {
	for _, s := range pre.Truth.Live("rtok", "") {
		if sameTokenBytes(submitted, s.Val) && !pre.Now.After(s.At.Add(validity)) {
			return s
		}
	}
	return nil
}

// smsSentTo reports whether code was delivered to number, to this browser's
// session, and is the most recent code of that session (the one it holds).
func smsCodeValidFor(pre *world.World, browser, number, code string, account ...string) bool {
	if number == "" || code == "" {
		return false
	}
	// the newest message generated for this browser's session
	for i := len(pre.Truth.SMSLog) - 1; i >= 0; i-- {
		m := pre.Truth.SMSLog[i]
		if m.Browser != browser {
			continue
		}
		if len(account) == 1 && m.For != "" && m.For != account[0] {
			return false // sent for another account's login (two accounts may share a number)
		}
		return m.Number == number && m.Code == code
	}
	return false
}

// justification decides, from ground truth only, whether the request in o
// proved a currently valid credential of account x. It returns the kind of
// credential, or "".
func justification(s *world.Stack, pre *world.World, o *world.Obs, x string) string {
	tag := o.Req.Tag
	b := o.Req.Browser
	row, exists := pre.DB.Users[x]

	// remember cookie: any request from a session without a user
	if s.Cfg.Has("remember") && o.UIDBefore() == "" {
		if c := o.CookBefore["rm"]; c != "" {
			if sec := pre.Truth.ByVal("rm", c); sec != nil && !sec.Dead && sec.Owner == x {
				return "remember"
			}
		}
	}
	switch tag.Kind {
	case "login":
		if exists && tag.PID == x {
			if p, ok := world.PlainOf(row.Password); ok && p == tag.Secret {
				return "password"
			}
		}
	case "otplogin":
		if exists && tag.PID == x {
			if sec := pre.Truth.ByVal("otp", tag.Secret); sec != nil && !sec.Dead && sec.Owner == x {
				return "otp"
			}
		}
	case "recover_end":
		if s.AB.Config.Modules.RecoverLoginAfterRecovery {
			if sec := liveRecoverToken(pre, tag.Secret, s.AB.Config.Modules.RecoverTokenDuration); sec != nil && sec.Owner == x {
				return "recover-token"
			}
		}
	case "register":
		if !exists && tag.PID == x {
			return "registration"
		}
	case "oauth_cb":
		st := o.SessBefore[authboss.SessionOAuth2State]
		if st != "" && tag.State == st && tag.Err == "" && strings.HasPrefix(tag.Code, "c:") {
			if authboss.MakeOAuth2PID(tag.Provider, strings.TrimPrefix(tag.Code, "c:")) == x {
				return "oauth2"
			}
		}
	case "totp_validate":
		if exists && o.SessBefore["totp_pending"] == x {
			if tag.Recovery != "" {
				if sec := pre.Truth.ByVal("rc", tag.Recovery); sec != nil && !sec.Dead && sec.Owner == x {
					return "2fa-recovery-code"
				}
			} else if totpValidFor(pre, row.TOTPSecretKey, tag.Secret) {
				return "2fa-totp"
			}
		}
	case "sms_validate":
		if exists && o.SessBefore["sms_pending"] == x {
			if tag.Recovery != "" {
				if sec := pre.Truth.ByVal("rc", tag.Recovery); sec != nil && !sec.Dead && sec.Owner == x {
					return "2fa-recovery-code"
				}
			} else if smsCodeValidFor(pre, b, row.SMSPhoneNumber, tag.Secret, x) {
				return "2fa-sms"
			}
		}
	}
	return ""
}

// has2FA reports whether an account has a second factor enabled.
func has2FA(w *world.World, pid string) bool {
	r, ok := w.DB.Users[pid]
	return ok && (r.TOTPSecretKey != "" || r.SMSPhoneNumber != "")
}
