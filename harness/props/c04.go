package props

import (
	"fmt"
	"time"

	"github.com/volatiletech/authboss/v3"
	"verif/engine"
	"verif/flows"
	"verif/world"
)

// C04 — failed-attempt counting and lockout follow the configured thresholds
// exactly. E1 (to a fixpoint on the small-duration configurations) with a
// reference automaton written from the statement, advanced on the same history
// and compared with storage after every step.
//
// Reference automaton per account (count, last, lockedUntil):
//   failure at t:            count = (last set and t-last <= W) ? count+1 : 1; last = t;
//                            if count >= LockAfter then lockedUntil = t + D
//   correct first factor t:  last = t                        (never counts)
//   completed login at t:    count = 0; last = t
//   manual lock at t:        lockedUntil = t + D
//   manual unlock:           count = 0; last unset; not locked

type c04cfg struct {
	after int
	w, d  time.Duration
}

func c04Key(pid, f string) string { return "c04:" + f + ":" + pid }

type c04Model struct {
	count       int
	last        time.Time // zero = unset
	lockedUntil time.Time
}

func c04Get(t *world.Truth, pid string) c04Model {
	return c04Model{count: t.Ints[c04Key(pid, "count")], last: t.Times[c04Key(pid, "last")], lockedUntil: t.Times[c04Key(pid, "locked")]}
}

func c04Put(t *world.Truth, pid string, m c04Model) {
	t.Ints[c04Key(pid, "count")] = m.count
	if m.last.IsZero() {
		delete(t.Times, c04Key(pid, "last"))
	} else {
		t.Times[c04Key(pid, "last")] = m.last
	}
	if m.lockedUntil.IsZero() {
		delete(t.Times, c04Key(pid, "locked"))
	} else {
		t.Times[c04Key(pid, "locked")] = m.lockedUntil
	}
}

// c04Classify decides from ground truth what the request was for the
// automaton: which account it concerns and whether it was a failure, a correct
// first factor, or a completing credential.
func c04Classify(st *engine.Step) (pid, class string) {
	o := st.Obs
	pre := st.Pre
	tag := o.Req.Tag
	switch tag.Kind {
	case "login":
		r, ok := pre.DB.Users[tag.PID]
		if !ok {
			return "", ""
		}
		if p, ok := world.PlainOf(r.Password); ok && p == tag.Secret {
			if has2FA(pre, tag.PID) {
				return tag.PID, "first-factor"
			}
			return tag.PID, "complete"
		}
		return tag.PID, "failure"
	case "otplogin":
		if _, ok := pre.DB.Users[tag.PID]; !ok {
			return "", ""
		}
		if sec := pre.Truth.ByVal("otp", tag.Secret); sec != nil && !sec.Dead && sec.Owner == tag.PID {
			if has2FA(pre, tag.PID) {
				return tag.PID, "first-factor"
			}
			return tag.PID, "complete"
		}
		return tag.PID, "failure"
	case "totp_validate":
		if !st.S.Cfg.Has("totp2fa") {
			return "", ""
		}
		x := o.UIDBefore()
		if x == "" {
			x = o.SessBefore["totp_pending"]
		}
		r, ok := pre.DB.Users[x]
		if !ok || r.TOTPSecretKey == "" {
			return "", ""
		}
		valid := false
		if tag.Recovery != "" {
			sec := pre.Truth.ByVal("rc", tag.Recovery)
			valid = sec != nil && !sec.Dead && sec.Owner == x
		} else {
			valid = totpValidFor(pre, r.TOTPSecretKey, tag.Secret)
			if st.S.Cfg.OneTimeUser && r.TOTPLastCode != "" && r.TOTPLastCode == tag.Secret {
				valid = false // replay protection: the code that was accepted last is rejected, like any wrong code
			}
		}
		if valid {
			return x, "complete"
		}
		return x, "failure"
	case "sms_validate":
		if !st.S.Cfg.Has("sms2fa") {
			return "", ""
		}
		x := o.UIDBefore()
		if x == "" {
			x = o.SessBefore["sms_pending"]
		}
		r, ok := pre.DB.Users[x]
		if !ok {
			return "", ""
		}
		if tag.Recovery != "" {
			if sec := pre.Truth.ByVal("rc", tag.Recovery); sec != nil && !sec.Dead && sec.Owner == x {
				return x, "complete"
			}
			return x, "failure"
		}
		if tag.Secret == "" || o.SessBefore["sms_secret"] == "" {
			return "", "" // a (re)send request, or no code outstanding: not an attempt
		}
		if smsCodeValidFor(pre, o.Req.Browser, r.SMSPhoneNumber, tag.Secret) {
			return x, "complete"
		}
		return x, "failure"
	case "sms_remove":
		// a wrong code on the removal page of a logged-in session is a failed 2FA attempt like any other
		// (a right one switches the factor off; it is not a login and moves no counter)
		x := o.UIDBefore()
		r, ok := pre.DB.Users[x]
		if !st.S.Cfg.Has("sms2fa") || !ok || tag.Recovery != "" || tag.Secret == "" || o.SessBefore["sms_secret"] == "" {
			return "", ""
		}
		if !smsCodeValidFor(pre, o.Req.Browser, r.SMSPhoneNumber, tag.Secret) {
			return x, "failure"
		}
	case "recover_end":
		if sec := liveRecoverToken(pre, tag.Secret, st.S.AB.Config.Modules.RecoverTokenDuration); sec != nil && st.S.AB.Config.Modules.RecoverLoginAfterRecovery && o.OK() {
			if has2FA(pre, sec.Owner) {
				return sec.Owner, "first-factor"
			}
			return sec.Owner, "complete"
		}
	case "oauth_cb":
		if u2 := o.UIDAfter(); u2 != "" && u2 != o.UIDBefore() {
			return u2, "first-factor" // the lock module stamps the attempt but does not reset the count for OAuth2
		}
		if len(tag.Code) > 2 && tag.State != "" && tag.State == o.SessBefore["oauth2_state"] && tag.Err == "" {
			return authboss.MakeOAuth2PID(tag.Provider, tag.Code[2:]), "first-factor"
		}
	}
	return "", ""
}

func c04ModelStep(cfg c04cfg) func(st *engine.Step) {
	return func(st *engine.Step) {
		t := st.Post.Truth
		now := st.Pre.Now
		name := st.Act.Name
		for pid := range st.Pre.DB.Users {
			if name == "admin-lock("+pid+")" {
				m := c04Get(t, pid)
				m.lockedUntil = now.Add(cfg.d)
				c04Put(t, pid, m)
			}
			if name == "admin-unlock("+pid+")" {
				c04Put(t, pid, c04Model{})
			}
		}
		if st.Obs == nil {
			return
		}
		pid, class := c04Classify(st)
		if pid == "" {
			return
		}
		m := c04Get(t, pid)
		locked := m.lockedUntil.After(now)
		switch class {
		case "failure":
			if !m.last.IsZero() && now.Sub(m.last) <= cfg.w {
				m.count++
			} else {
				m.count = 1
			}
			m.last = now
			if m.count >= cfg.after {
				m.lockedUntil = now.Add(cfg.d)
			}
		case "first-factor":
			m.last = now
		case "complete":
			if r := st.Pre.DB.Users[pid]; st.S.Cfg.Has("confirm") && !r.Confirmed {
				locked = true // vetoed by the confirm module: the login does not complete
			}
			if locked {
				m.last = now // a correct credential while locked is refused; it never counts
			} else {
				m.count, m.last = 0, now
			}
		}
		c04Put(t, pid, m)
	}
}

func c04Monitor(cfg c04cfg) func(st *engine.Step) {
	return func(st *engine.Step) {
		post := st.Post
		now := post.Now
		for _, pid := range []string{U1, U2} {
			m := c04Get(post.Truth, pid)
			r := post.DB.Users[pid]
			what := st.Act.Name
			if r.AttemptCount != m.count {
				st.Report(engine.Violation{Rule: "C04/attempt-count", Attrs: fmt.Sprintf("after=%d", cfg.after),
					Detail: fmt.Sprintf("after %s the stored attempt count of %s is %d, the reference automaton says %d (LockAfter=%d window=%s duration=%s)", what, pid, r.AttemptCount, m.count, cfg.after, cfg.w, cfg.d)})
			}
			if m.lockedUntil.Equal(now) || r.Locked.Equal(now) {
				continue // expiry at exactly LockDuration is not specified either way
			}
			wantLocked := m.lockedUntil.After(now)
			gotLocked := r.Locked.After(now)
			if wantLocked != gotLocked {
				st.Report(engine.Violation{Rule: "C04/lockedness", Attrs: fmt.Sprintf("after=%d,stored=%v,expected=%v", cfg.after, gotLocked, wantLocked),
					Detail: fmt.Sprintf("after %s account %s locked=%v (until %s) but the reference automaton says locked=%v (until %s); count=%d LockAfter=%d window=%s duration=%s",
						what, pid, gotLocked, r.Locked.Format(time.RFC3339), wantLocked, m.lockedUntil.Format(time.RFC3339), m.count, cfg.after, cfg.w, cfg.d)})
			} else if wantLocked && !r.Locked.Equal(m.lockedUntil) {
				st.Report(engine.Violation{Rule: "C04/lock-expiry", Attrs: fmt.Sprintf("after=%d", cfg.after),
					Detail: fmt.Sprintf("after %s account %s is locked until %s, the reference automaton says %s (LockDuration from the failure that (re)triggered it)", what, pid, r.Locked.Format(time.RFC3339), m.lockedUntil.Format(time.RFC3339))})
			}
		}
		// frame: the bystander's row never changes
		if a, b := st.Pre.DB.Users[U3], post.DB.Users[U3]; fmt.Sprintf("%+v", a) != fmt.Sprintf("%+v", b) {
			st.Report(engine.Violation{Rule: "C04/bystander-changed", Detail: "the row of an account no request named was modified"})
		}
		// behavioural consequence: is the next correct-password login accepted?
		if st.Obs != nil {
			for _, pid := range []string{U1, U2} {
				m := c04Get(post.Truth, pid)
				if m.lockedUntil.Equal(now) {
					continue
				}
				p, ok := curPassword(post, pid)
				if !ok {
					continue
				}
				cl := post.Clone()
				o := flows.Exec(st.S, cl, flows.Login(st.S, "B2", pid, p, false), "")
				accepted := o.UIDAfter() == pid || o.SessAfter["totp_pending"] == pid || o.SessAfter["sms_pending"] == pid
				if want := !m.lockedUntil.After(now); accepted != want {
					st.Report(engine.Violation{Rule: "C04/next-correct-login", Attrs: fmt.Sprintf("after=%d,accepted=%v,expected=%v", cfg.after, accepted, want),
						Detail: fmt.Sprintf("after %s a correct-password login of %s is accepted=%v, the reference automaton says %v", st.Act.Name, pid, accepted, want)})
				}
			}
		}
	}
}

func c04Cover(st *engine.Step) []string {
	if st.Obs == nil {
		return nil
	}
	pid, class := c04Classify(st)
	if pid == "" {
		return nil
	}
	c := []string{class + ":" + st.Obs.Req.Tag.Kind}
	if st.Obs.Req.Tag.Note == "totp:repeated" {
		c = append(c, "repeated-code")
	}
	m := c04Get(st.Post.Truth, pid)
	pm := c04Get(st.Pre.Truth, pid)
	if m.lockedUntil.After(st.Post.Now) && !pm.lockedUntil.After(st.Pre.Now) {
		c = append(c, "became-locked")
	}
	if class == "failure" && pm.count > 0 && m.count == 1 {
		c = append(c, "count-restarted-by-window")
	}
	if pm.lockedUntil.After(st.Pre.Now) && class == "failure" && m.lockedUntil.After(pm.lockedUntil) {
		c = append(c, "lock-retriggered")
	}
	return c
}

func c04Scenarios(tier string) []engine.Scenario {
	grid := []c04cfg{{1, 10 * time.Second, 30 * time.Second}, {3, 10 * time.Second, 30 * time.Second}, {2, 5 * time.Minute, 12 * time.Hour}}
	if tier == "thorough" {
		grid = nil
		for _, a := range []int{1, 2, 3} {
			for _, wd := range [][2]time.Duration{{5 * time.Minute, 12 * time.Hour}, {10 * time.Second, 30 * time.Second}, {time.Hour, 10 * time.Second}} {
				grid = append(grid, c04cfg{a, wd[0], wd[1]})
			}
		}
	}
	var out []engine.Scenario
	if tier == "thorough" {
		// tiny durations: the abstract state space is small enough to run to a fixpoint
		for _, a := range []int{1, 2, 3} {
			grid = append(grid, c04cfg{a, 2 * time.Second, 3 * time.Second}, c04cfg{a, 3 * time.Second, 2 * time.Second})
		}
	}
	for gi, cfg := range grid {
		cfg := cfg
		whos := []string{"otp", "totp"}
		if gi == 1 || tier == "thorough" && gi < 4 {
			whos = append(whos, "totp-onetime") // users with TOTP replay protection: a repeated code is a counted failure too
			whos = append(whos, "sms")          // SMS codes, also on the removal page of a logged-in session
		}
		for _, who := range whos {
			who := who
			onetime := who == "totp-onetime"
			if onetime {
				who = "totp"
			}
			depth := 5
			if tier == "thorough" {
				depth = 6
			}
			small := cfg.w <= 3*time.Second && cfg.d <= 3*time.Second
			if small && tier == "thorough" {
				depth = 0 // run to a fixpoint: every history over this menu, of any length
			}
			sat := cfg.w
			if cfg.d > sat {
				sat = cfg.d
			}
			sat += time.Second
			mods := []string{"auth", "otp", "lock", "logout"}
			if who == "totp" {
				mods = []string{"auth", "lock", "totp2fa", "recovery", "logout"}
			}
			if who == "sms" {
				mods = []string{"auth", "lock", "sms2fa", "recovery", "logout"}
			}
			sc := engine.Scenario{
				Name:  fmt.Sprintf("%s-after%d-w%s-d%s", map[bool]string{false: who, true: "totp-onetime"}[onetime], cfg.after, cfg.w, cfg.d),
				Depth: depth, Sat: sat, MaxStates: 400000,
				Cfg: world.Config{Modules: mods, LockAfter: cfg.after, LockWindow: cfg.w, LockDuration: cfg.d, OneTimeUser: onetime},
				Init: func(s *world.Stack) *world.World {
					w := world.NewWorld("B1", "B2")
					if who == "otp" {
						flows.SeedAcct(s, w, flows.Acct{PID: U1, Password: P1, OTPs: []string{"11111111-22222222-33333333-44444444", "55555555-66666666-77777777-88888888"}})
					} else if who == "sms" {
						flows.SeedAcct(s, w, flows.Acct{PID: U1, Password: P1, SMSNumber: N1, RecoveryCodes: []string{"aaaaa-11111"}})
					} else {
						flows.SeedAcct(s, w, flows.Acct{PID: U1, Password: P1, TOTPSecret: flows.TOTPSecrets[0], RecoveryCodes: []string{"aaaaa-11111"}})
					}
					flows.SeedAcct(s, w, flows.Acct{PID: U3, Password: P3})
					return w
				},
				Model: c04ModelStep(cfg), Monitor: c04Monitor(cfg), Cover: c04Cover,
			}
			sc.Actions = func(s *world.Stack, w *world.World) []engine.Action {
				var a []engine.Action
				b := "B1"
				m := c04Get(w.Truth, U1)
				failuresAllowed := m.count < cfg.after+2 // bound: at most LockAfter+2 counted failures in a row
				a = append(a, flows.A("login(B1,u1,pw:cur)", func(s *world.Stack, _ *world.World) world.Req {
					r := flows.Login(s, b, U1, P1, false)
					r.Tag.Note = "pw:cur"
					return r
				}, ""))
				if failuresAllowed {
					a = append(a, flows.A("login(B1,u1,pw:wrong)", func(s *world.Stack, _ *world.World) world.Req {
						r := flows.Login(s, b, U1, "wrong", false)
						r.Tag.Note = "pw:wrong"
						return r
					}, ""))
				}
				if failuresAllowed {
					// an incomplete form is a failed attempt like any other
					a = append(a, flows.A("login(B1,u1,pw:empty)", func(s *world.Stack, _ *world.World) world.Req {
						r := flows.Login(s, b, U1, "", false)
						r.Tag.Note = "pw:empty"
						return r
					}, ""))
				}
				if who == "otp" {
					if l := w.Truth.Live("otp", U1); len(l) > 0 {
						v := l[0].Val
						a = append(a, flows.A("otplogin(B1,u1,otp:live#0)", func(s *world.Stack, _ *world.World) world.Req {
							r := flows.OTPLogin(s, b, U1, v, false)
							r.Tag.Note = "otp:live"
							return r
						}, ""))
					}
					if failuresAllowed {
						a = append(a, flows.A("otplogin(B1,u1,otp:wrong)", func(s *world.Stack, _ *world.World) world.Req {
							r := flows.OTPLogin(s, b, U1, "00000000-00000000-00000000-00000000", false)
							r.Tag.Note = "otp:wrong"
							return r
						}, ""))
					}
				} else if who == "sms" {
					ses := w.Browsers[b].Session
					code := ses["sms_secret"]
					if ses["sms_pending"] == U1 && w.UID(b) == "" && code != "" {
						a = append(a, flows.A("sms-validate(B1,sms:session-code)", func(s *world.Stack, _ *world.World) world.Req {
							r := flows.SMSValidate(s, b, code, "")
							r.Tag.Note = "sms:session-code"
							return r
						}, ""))
						if failuresAllowed {
							a = append(a, flows.A("sms-validate(B1,code:000000)", func(s *world.Stack, _ *world.World) world.Req {
								r := flows.SMSValidate(s, b, "000000", "")
								r.Tag.Note = "code:000000"
								return r
							}, ""))
						}
					}
					if w.UID(b) == U1 {
						a = append(a, flows.A("sms-remove(B1,resend)", func(s *world.Stack, _ *world.World) world.Req { return flows.SMSRemove(s, b, "", "") }, ""))
						if code != "" && failuresAllowed {
							a = append(a, flows.A("sms-remove(B1,code:000000)", func(s *world.Stack, _ *world.World) world.Req {
								r := flows.SMSRemove(s, b, "000000", "")
								r.Tag.Note = "code:000000"
								return r
							}, ""))
						}
					}
				} else if w.Browsers[b].Session["totp_pending"] == U1 && w.UID(b) == "" {
					code := flows.TOTPCode(w, flows.TOTPSecrets[0], 0)
					a = append(a, flows.A("totp-validate(B1,totp:now)", func(s *world.Stack, _ *world.World) world.Req {
						r := flows.TOTPValidate(s, b, code, "")
						r.Tag.Note = "totp:now"
						return r
					}, ""))
					if last := w.DB.Users[U1].TOTPLastCode; onetime && last != "" && failuresAllowed {
						a = append(a, flows.A("totp-validate(B1,totp:repeated)", func(s *world.Stack, _ *world.World) world.Req {
							r := flows.TOTPValidate(s, b, last, "")
							r.Tag.Note = "totp:repeated"
							return r
						}, ""))
					}
					if failuresAllowed {
						a = append(a, flows.A("totp-validate(B1,code:000000)", func(s *world.Stack, _ *world.World) world.Req {
							r := flows.TOTPValidate(s, b, "000000", "")
							r.Tag.Note = "code:000000"
							return r
						}, ""))
					}
				}
				a = append(a, simple("logout(B1)", func(s *world.Stack) world.Req { return flows.Logout(s, b) }))
				a = append(a, flows.AdminLock(U1), flows.AdminUnlock(U1))
				a = append(a, waitActs(time.Second, cfg.w-time.Second, cfg.w+time.Second, cfg.d-time.Second, cfg.d+time.Second)...)
				return a
			}
			sc.Need = []string{"failure:login", "complete:login", "became-locked"}
			if who == "totp" {
				sc.Need = []string{"failure:login", "first-factor:login", "failure:totp_validate", "complete:totp_validate", "became-locked"}
			}
			if onetime {
				sc.Need = append(sc.Need, "repeated-code")
			}
			if who == "sms" {
				sc.Need = []string{"failure:login", "first-factor:login", "failure:sms_validate", "complete:sms_validate", "failure:sms_remove", "became-locked"}
			}
			out = append(out, sc)
		}
	}
	return out
}

func init() {
	engine.Register(&engine.Property{
		ID: "C04", Level: "model_checking",
		Rule: "E1 with a reference automaton (count, last attempt, locked-until) advanced on the same history and compared with storage and with a probe login after every step; clock alphabet {1s, W-1s, W+1s, D-1s, D+1s}; accounts with OTPs, with TOTP, and with TOTP replay protection; small-duration configurations run to a fixpoint (all histories of any length); classes = attempt classes and lock transitions hit",
		Units: func(tier string) []engine.Unit {
			scs := c04Scenarios(tier)
			return e1Units(append(scs, configVariants(scs[:2], tier, "err500", "json", "localizer")...))
		},
		Assumptions: []string{"lock expiry at exactly LockDuration is not asserted either way", "at most LockAfter+2 counted failures in a row (bounds the counter)", "TOTP replay protection (UserOneTime) is exercised in dedicated configurations: the code accepted last, sent again, is a counted failure"},
	})
}
