package props

import (
	"encoding/base64"
	"fmt"
	"github.com/volatiletech/authboss/v3"
	"strings"
	"time"

	"verif/engine"
	"verif/flows"
	"verif/world"
)

// C01 — a logged-in session is only ever issued against a valid credential of
// that user. E1 over six module sets; the oracle is `justification` (ground
// truth only), evaluated on every transition that changes a session's user.

func c01Monitor(st *engine.Step) {
	o := st.Obs
	if o == nil {
		return
	}
	u, u2 := o.UIDBefore(), o.UIDAfter()
	kind := o.Req.Tag.Kind
	for _, pk := range []string{"totp_pending", "sms_pending"} {
		if x := o.SessAfter[pk]; x != "" && x != o.SessBefore[pk] {
			// "the second-factor step of a login U's credential already started in this session":
			// the login that is parked here must itself have been started by a valid credential of U
			if j := justification(st.S, st.Pre, o, x); j == "" {
				st.Report(engine.Violation{Rule: "C01/login-parked-without-credential", Attrs: "kind=" + kind + ",secret=" + o.Req.Tag.Note,
					Detail: fmt.Sprintf("browser %s now holds a pending second-factor login for %q, started by a %s request that proved no currently valid credential of that account (secret %s)", o.Req.Browser, x, kind, flows.Label(o.Req.Tag.Secret))})
			}
		}
	}
	if u2 == u {
		return
	}
	if u2 == "" {
		if kind == "logout" || st.S.Cfg.Has("expire") {
			return
		}
		st.Report(engine.Violation{Rule: "C01/session-user-dropped", Attrs: "kind=" + kind,
			Detail: fmt.Sprintf("request %s %s removed the session user %q although it is neither a logout nor an expiry", o.Req.Method, o.Req.Path, u)})
		return
	}
	if j := justification(st.S, st.Pre, o, u2); j == "" {
		st.Report(engine.Violation{Rule: "C01/unjustified-session", Attrs: "kind=" + kind + ",secret=" + o.Req.Tag.Note,
			Detail: fmt.Sprintf("browser %s became logged in as %q (was %q) by a %s request that proved no currently valid credential of that account (pid=%q secret=%s recovery=%q state=%q code=%q)",
				o.Req.Browser, u2, u, kind, o.Req.Tag.PID, flows.Label(o.Req.Tag.Secret), o.Req.Tag.Recovery, o.Req.Tag.State, o.Req.Tag.Code)})
	}
}

func c01Cover(st *engine.Step) []string {
	o := st.Obs
	if o == nil {
		return nil
	}
	u, u2 := o.UIDBefore(), o.UIDAfter()
	if u2 != u && u2 != "" {
		if j := justification(st.S, st.Pre, o, u2); j != "" {
			return []string{"justified:" + j}
		}
		return []string{"unjustified"}
	}
	switch o.Req.Tag.Kind {
	case "login", "otplogin", "recover_end", "oauth_cb", "totp_validate", "sms_validate", "register":
		return []string{"no-session-change:" + o.Req.Tag.Kind}
	}
	return nil
}

var bothBrowsers = []string{"B1", "B2"}

// c01Long80 meets the default password policy and is 80 bytes long (bcrypt reads 72).
var c01Long80 = "Aa1!" + strings.Repeat("long-passphrase-", 4) + "0123456789ab"

func seedTwo(s *world.Stack, w *world.World, a1, a2 flows.Acct) {
	a1.PID, a1.Password = U1, P1
	a2.PID, a2.Password = U2, P2
	flows.SeedAcct(s, w, a1)
	flows.SeedAcct(s, w, a2)
}

func c01Scenarios(tier string) []engine.Scenario {
	depth := 4
	if tier == "thorough" {
		depth = 6
	}
	accounts := []string{U1, U2}
	var out []engine.Scenario

	// S1: password login only, rich secret alphabet, malformed bodies.
	out = append(out, engine.Scenario{
		Name: "S1-auth", Cfg: world.Config{Modules: []string{"auth", "logout"}}, Depth: depth + 1,
		Init: func(s *world.Stack) *world.World {
			w := world.NewWorld("B1", "B2")
			seedTwo(s, w, flows.Acct{}, flows.Acct{})
			return w
		},
		Actions: func(s *world.Stack, w *world.World) []engine.Action {
			var a []engine.Action
			for _, b := range bothBrowsers {
				a = append(a, loginActs(w, b, []string{U1, U2, U0, ""}, accounts, true, []bool{false})...)
				a = append(a, simple("logout("+b+")", func(s *world.Stack) world.Req { return flows.Logout(s, b) }))
				a = append(a, simple("login-badbody("+b+")", func(s *world.Stack) world.Req {
					r := flows.Login(s, b, U1, P1, false)
					r.Form, r.RawBody = nil, "email=%zz&password=%"
					r.Tag.Note = "malformed"
					return r
				}))
			}
			return a
		},
		Monitor: c01Monitor, Cover: c01Cover, Need: []string{"justified:password", "no-session-change:login"},
	})

	// S2: otp + remember
	out = append(out, engine.Scenario{
		Name: "S2-otp-remember", Cfg: world.Config{Modules: []string{"auth", "otp", "remember", "logout"}}, Depth: depth,
		Init: func(s *world.Stack) *world.World {
			w := world.NewWorld("B1", "B2")
			seedTwo(s, w, flows.Acct{OTPs: []string{"11111111-22222222-33333333-44444444", "55555555-66666666-77777777-88888888"}}, flows.Acct{OTPs: []string{"aaaaaaaa-bbbbbbbb-cccccccc-dddddddd"}})
			return w
		},
		Actions: func(s *world.Stack, w *world.World) []engine.Action {
			var a []engine.Action
			for _, b := range bothBrowsers {
				a = append(a, loginActs(w, b, []string{U1, U0}, accounts, false, []bool{false, true})...)
				a = append(a, otpLoginActs(w, b, []string{U1, U2, U0}, accounts, true)...)
				a = append(a, simple("otp-add("+b+")", func(s *world.Stack) world.Req { return flows.OTPAdd(s, b) }))
				a = append(a, simple("logout("+b+")", func(s *world.Stack) world.Req { return flows.Logout(s, b) }))
				a = append(a, simple("open("+b+")", func(s *world.Stack) world.Req { return flows.Open(b) }))
				a = append(a, flows.Restart(b))
			}
			a = append(a, flows.Steal("B1", "B2"))
			return a
		},
		Monitor: c01Monitor, Cover: c01Cover, Need: []string{"justified:password", "justified:otp", "justified:remember", "no-session-change:otplogin"},
	})

	// S3: register + confirm + recover-and-login
	out = append(out, engine.Scenario{
		Name: "S3-register-confirm-recover", Cfg: world.Config{Modules: []string{"auth", "register", "confirm", "recover", "logout"}, RecoverLoginAfter: true, RecoverTokenDuration: time.Hour}, Depth: depth,
		Init: func(s *world.Stack) *world.World {
			w := world.NewWorld("B1", "B2")
			seedTwo(s, w, flows.Acct{}, flows.Acct{})
			return w
		},
		Actions: func(s *world.Stack, w *world.World) []engine.Action {
			var a []engine.Action
			for _, b := range bothBrowsers {
				a = append(a, loginActs(w, b, []string{U1, U3}, []string{U1, U2, U3}, false, []bool{false})...)
				a = append(a, recoverEndActs(w, b, []string{U1, U2}, P3)...)
			}
			b := "B1"
			a = append(a, flows.A("register(B1,u3)", func(s *world.Stack, _ *world.World) world.Req {
				return flows.Register(s, b, map[string]string{"email": U3, "password": P3, "confirm_password": P3})
			}, U3))
			a = append(a, flows.A("register(B1,u1-existing)", func(s *world.Stack, _ *world.World) world.Req {
				return flows.Register(s, b, map[string]string{"email": U1, "password": P3, "confirm_password": P3})
			}, ""))
			a = append(a, confirmActs(w, "B2", []string{U3})...)
			a = append(a, flows.A("recover-start(B2,u1)", func(s *world.Stack, _ *world.World) world.Req { return flows.RecoverStart(s, "B2", U1) }, U1))
			a = append(a, flows.A("recover-start(B1,u2)", func(s *world.Stack, _ *world.World) world.Req { return flows.RecoverStart(s, "B1", U2) }, U2))
			a = append(a, flows.Advance(61*time.Minute))
			return a
		},
		Monitor: c01Monitor, Cover: c01Cover, Need: []string{"justified:password", "justified:recover-token", "no-session-change:recover_end"},
	})

	// S3c: recovery that does not log in: completing it - from whichever browser, logged in as whoever - leaves every session's identity alone
	out = append(out, engine.Scenario{
		Name: "S3c-recover-without-login", Cfg: world.Config{Modules: []string{"auth", "recover", "remember", "logout"}, RecoverLoginAfter: false, RecoverTokenDuration: time.Hour}, Depth: depth,
		Init: func(s *world.Stack) *world.World {
			w := world.NewWorld("B1", "B2")
			seedTwo(s, w, flows.Acct{}, flows.Acct{})
			return w
		},
		Actions: func(s *world.Stack, w *world.World) []engine.Action {
			var a []engine.Action
			for _, b := range bothBrowsers {
				a = append(a, loginActs(w, b, []string{U1, U2}, []string{U1, U2}, false, []bool{b == "B1"})...)
				a = append(a, recoverEndActs(w, b, []string{U1, U2}, P3)...)
				a = append(a, simple("logout("+b+")", func(s *world.Stack) world.Req { return flows.Logout(s, b) }))
			}
			a = append(a, flows.A("recover-start(B2,u1)", func(s *world.Stack, _ *world.World) world.Req { return flows.RecoverStart(s, "B2", U1) }, U1))
			a = append(a, flows.A("recover-start(B1,u2)", func(s *world.Stack, _ *world.World) world.Req { return flows.RecoverStart(s, "B1", U2) }, U2))
			return a
		},
		Monitor: c01Monitor, Cover: c01Cover, Need: []string{"justified:password", "no-session-change:recover_end"},
	})

	// S3b: registration without confirm logs the new user in
	out = append(out, engine.Scenario{
		Name: "S3b-register", Cfg: world.Config{Modules: []string{"auth", "register", "logout"}}, Depth: depth,
		Init: func(s *world.Stack) *world.World {
			w := world.NewWorld("B1", "B2")
			seedTwo(s, w, flows.Acct{}, flows.Acct{})
			return w
		},
		Actions: func(s *world.Stack, w *world.World) []engine.Action {
			var a []engine.Action
			for _, b := range bothBrowsers {
				b := b
				for _, pid := range []string{U3, U1} {
					pid := pid
					for _, pw := range []cand{{"pw:ok", P3}, {"pw:weak", "short"}, {"pw:empty", ""}, {"pw:long80", c01Long80}} {
						pw := pw
						a = append(a, flows.A(fmt.Sprintf("register(%s,%s,%s)", b, short(pid), pw.note), func(s *world.Stack, _ *world.World) world.Req {
							return flows.Register(s, b, map[string]string{"email": pid, "password": pw.val, "confirm_password": pw.val})
						}, pid))
					}
				}
				a = append(a, loginActs(w, b, []string{U3}, []string{U1, U3}, false, []bool{false})...)
				// a passphrase longer than bcrypt's 72 bytes, and another one that shares its first 72 bytes
				for _, c := range []cand{{"pw:long80", c01Long80}, {"pw:long80-other-tail", c01Long80[:72] + "ZZZZZZZZ"}} {
					a = append(a, flows.A(fmt.Sprintf("login(%s,u3,%s)", b, c.note), func(s *world.Stack, _ *world.World) world.Req {
						r := flows.Login(s, b, U3, c.val, false)
						r.Tag.Note = c.note
						return r
					}, ""))
				}
				a = append(a, simple("logout("+b+")", func(s *world.Stack) world.Req { return flows.Logout(s, b) }))
			}
			return a
		},
		Monitor: c01Monitor, Cover: c01Cover, Need: []string{"justified:registration", "no-session-change:register"},
	})

	// S4: second factors
	out = append(out, engine.Scenario{
		Name: "S4-2fa", Cfg: world.Config{Modules: []string{"auth", "recover", "totp2fa", "sms2fa", "recovery", "logout"}, RecoverLoginAfter: true}, Depth: depth,
		Init: func(s *world.Stack) *world.World {
			w := world.NewWorld("B1", "B2")
			seedTwo(s, w, flows.Acct{TOTPSecret: flows.TOTPSecrets[0], RecoveryCodes: []string{"aaaaa-11111", "bbbbb-22222"}},
				flows.Acct{SMSNumber: N2, RecoveryCodes: []string{"ccccc-33333", "ddddd-44444"}})
			return w
		},
		Actions: func(s *world.Stack, w *world.World) []engine.Action {
			var a []engine.Action
			for _, b := range bothBrowsers {
				a = append(a, loginActs(w, b, []string{U1, U2}, accounts, false, []bool{false})...)
				a = append(a, twofaValidateActs(s, w, b, accounts, []string{N1, N2}, true)...)
				a = append(a, simple("logout("+b+")", func(s *world.Stack) world.Req { return flows.Logout(s, b) }))
			}
			a = append(a, flows.Advance(31*time.Second))
			return a
		},
		Monitor: c01Monitor, Cover: c01Cover, Need: []string{"justified:2fa-totp", "justified:2fa-sms", "justified:2fa-recovery-code", "no-session-change:totp_validate", "no-session-change:sms_validate"},
	})

	// S5: oauth2 + remember
	out = append(out, engine.Scenario{
		Name: "S5-oauth2", Cfg: world.Config{Modules: []string{"auth", "oauth2", "remember", "logout"}}, Depth: depth + 1,
		Init: func(s *world.Stack) *world.World {
			w := world.NewWorld("B1", "B2")
			seedTwo(s, w, flows.Acct{}, flows.Acct{})
			return w
		},
		Actions: func(s *world.Stack, w *world.World) []engine.Action {
			var a []engine.Action
			for _, b := range bothBrowsers {
				a = append(a, oauthActs(w, b, []string{"google"}, []string{"", "rm=true"}, []string{"c:7", "bad"})...)
				// password logins naming the account the OAuth2 login created (it has no password: the stored value is empty)
				if op := authboss.MakeOAuth2PID("google", "7"); w.DB.Users[op].PID != "" {
					for _, c := range []cand{{"pw:empty", ""}, {"pw:anything", "Anyth1ng!"}} {
						a = append(a, flows.A(fmt.Sprintf("login(%s,oauth-account,%s)", b, c.note), func(s *world.Stack, _ *world.World) world.Req {
							r := flows.Login(s, b, op, c.val, false)
							r.Tag.Note = c.note
							return r
						}, ""))
					}
				}
				a = append(a, simple("logout("+b+")", func(s *world.Stack) world.Req { return flows.Logout(s, b) }))
				a = append(a, flows.Restart(b))
				a = append(a, simple("open("+b+")", func(s *world.Stack) world.Req { return flows.Open(b) }))
			}
			return a
		},
		Monitor: c01Monitor, Cover: c01Cover, Need: []string{"justified:oauth2", "no-session-change:oauth_cb"},
	})

	// S6: every module loaded at once (two load orders in the thorough tier): the same oracle on the
	// composition of all event handlers
	orders := [][]string{{"auth", "otp", "remember", "register", "confirm", "recover", "lock", "oauth2", "totp2fa", "sms2fa", "recovery", "logout"}}
	if tier == "thorough" {
		orders = append(orders, []string{"logout", "sms2fa", "totp2fa", "recovery", "oauth2", "lock", "recover", "confirm", "register", "remember", "otp", "auth"})
	}
	for oi, mods := range orders {
		out = append(out, engine.Sharded(engine.Scenario{
			Name: fmt.Sprintf("S6-all-modules-order%d", oi), Cfg: world.Config{Modules: mods, RecoverLoginAfter: true, LockAfter: 2}, Depth: depth,
			Init: func(s *world.Stack) *world.World {
				w := world.NewWorld("B1", "B2")
				seedTwo(s, w, flows.Acct{OTPs: []string{"11111111-22222222-33333333-44444444"}},
					flows.Acct{TOTPSecret: flows.TOTPSecrets[1], RecoveryCodes: []string{"ddddd-44444"}, OTPs: []string{"aaaaaaaa-bbbbbbbb-cccccccc-dddddddd"}})
				return w
			},
			Actions: func(s *world.Stack, w *world.World) []engine.Action {
				var a []engine.Action
				for _, b := range bothBrowsers {
					a = append(a, loginActs(w, b, []string{U1, U2}, accounts, false, []bool{b == "B1"})...)
					a = append(a, otpLoginActs(w, b, []string{U1, U2}, accounts, false)...)
					a = append(a, twofaValidateActs(s, w, b, accounts, []string{N1, N2}, false)...)
					a = append(a, recoverEndActs(w, b, []string{U1, U2}, P3)...)
					a = append(a, simple("logout("+b+")", func(s *world.Stack) world.Req { return flows.Logout(s, b) }))
				}
				a = append(a, oauthActs(w, "B2", []string{"google"}, []string{"rm=true"}, []string{"c:7"})...)
				a = append(a, flows.A("recover-start(B2,u1)", func(s *world.Stack, _ *world.World) world.Req { return flows.RecoverStart(s, "B2", U1) }, U1))
				a = append(a, flows.A("recover-start(B2,u2)", func(s *world.Stack, _ *world.World) world.Req { return flows.RecoverStart(s, "B2", U2) }, U2))
				a = append(a, flows.A("register(B2,u3)", func(s *world.Stack, _ *world.World) world.Req {
					return flows.Register(s, "B2", map[string]string{"email": U3, "password": P3, "confirm_password": P3})
				}, U3))
				a = append(a, confirmActs(w, "B2", []string{U3})...)
				a = append(a, flows.Restart("B1"), flows.Steal("B1", "B2"))
				a = append(a, simple("open(B1)", func(s *world.Stack) world.Req { return flows.Open("B1") }))
				a = append(a, flows.AdminLock(U1), flows.Advance(31*time.Second))
				return a
			},
			Monitor: c01Monitor, Cover: c01Cover,
		}, 8)...)
	}

	if tier == "thorough" {
		for i := range out {
			j := out[i]
			j.Name += "-json"
			j.Cfg.JSON = true
			if j.Name != "S5-oauth2-json" && !strings.HasPrefix(j.Name, "S6-") {
				out = append(out, j)
			}
		}
	}
	return out
}

// recoverEndActs: recover-end submissions with the tokens an attacker / user may hold.
func recoverEndActs(w *world.World, b string, owners []string, newpw string) []engine.Action {
	var out []engine.Action
	for _, o := range owners {
		var cs []cand
		if s := w.Truth.Newest("rtok", o, false); s != nil {
			cs = append(cs, cand{"rtok:live(" + short(o) + ")", s.Val})
		}
		if s := w.Truth.Newest("rtok", o, false); s != nil {
			cs = append(cs, cand{"rtok:live-verifier-bit-flipped(" + short(o) + ")", flipTokenBit(s.Val, 63*8)})
		}
		if s := w.Truth.Newest("rtok", o, true); s != nil {
			cs = append(cs, cand{"rtok:dead(" + short(o) + ")", s.Val})
		}
		if r, ok := w.DB.Users[o]; ok && r.RecoverSelector != "" {
			cs = append(cs, cand{"rtok:stored-selector(" + short(o) + ")", r.RecoverSelector})
		}
		for _, c := range cs {
			c := c
			out = append(out, flows.A(fmt.Sprintf("recover-end(%s,%s)", b, c.note), func(s *world.Stack, _ *world.World) world.Req {
				r := flows.RecoverEnd(s, b, c.val, newpw)
				r.Tag.Note = c.note
				return r
			}, ""))
		}
	}
	out = append(out, flows.A(fmt.Sprintf("recover-end(%s,rtok:empty)", b), func(s *world.Stack, _ *world.World) world.Req {
		r := flows.RecoverEnd(s, b, "", newpw)
		r.Tag.Note = "rtok:empty"
		return r
	}, ""))
	return out
}

func confirmActs(w *world.World, b string, owners []string) []engine.Action {
	var out []engine.Action
	for _, o := range owners {
		var cs []cand
		if s := w.Truth.Newest("ctok", o, false); s != nil {
			cs = append(cs, cand{"ctok:live(" + short(o) + ")", s.Val})
		}
		if s := w.Truth.Newest("ctok", o, true); s != nil {
			cs = append(cs, cand{"ctok:dead(" + short(o) + ")", s.Val})
		}
		for _, c := range cs {
			c := c
			out = append(out, flows.A(fmt.Sprintf("confirm(%s,%s)", b, c.note), func(s *world.Stack, _ *world.World) world.Req {
				r := flows.Confirm(s, b, c.val)
				r.Tag.Note = c.note
				return r
			}, ""))
		}
	}
	return out
}

// twofaValidateActs: what can be typed at the TOTP / SMS validation prompts.
// phones are the numbers whose messages the actor can read.
func twofaValidateActs(st *world.Stack, w *world.World, b string, accounts, phones []string, rich bool) []engine.Action {
	var out []engine.Action
	if subj := subject(w, b, "totp"); subj != "" && st.Cfg.Has("totp2fa") {
		for _, c := range totpCands(w, subj, accounts, rich) {
			c := c
			out = append(out, flows.A(fmt.Sprintf("totp-validate(%s,%s)", b, c.note), func(s *world.Stack, _ *world.World) world.Req {
				r := flows.TOTPValidate(s, b, c.val, "")
				r.Tag.Note = c.note
				return r
			}, ""))
		}
		for _, c := range rcCands(w, subj, accounts, rich) {
			c := c
			out = append(out, flows.A(fmt.Sprintf("totp-validate(%s,%s)", b, c.note), func(s *world.Stack, _ *world.World) world.Req {
				r := flows.TOTPValidate(s, b, "", c.val)
				r.Tag.Note = c.note
				return r
			}, ""))
		}
	}
	if subj := subject(w, b, "sms"); subj != "" && st.Cfg.Has("sms2fa") {
		out = append(out, flows.A(fmt.Sprintf("sms-validate(%s,resend)", b), func(s *world.Stack, _ *world.World) world.Req {
			r := flows.SMSValidate(s, b, "", "")
			r.Tag.Note = "resend"
			return r
		}, ""))
		for _, c := range smsCands(w, phones) {
			c := c
			out = append(out, flows.A(fmt.Sprintf("sms-validate(%s,%s)", b, c.note), func(s *world.Stack, _ *world.World) world.Req {
				r := flows.SMSValidate(s, b, c.val, "")
				r.Tag.Note = c.note
				return r
			}, ""))
		}
		for _, c := range rcCands(w, subj, accounts, rich) {
			c := c
			out = append(out, flows.A(fmt.Sprintf("sms-validate(%s,%s)", b, c.note), func(s *world.Stack, _ *world.World) world.Req {
				r := flows.SMSValidate(s, b, "", c.val)
				r.Tag.Note = c.note
				return r
			}, ""))
		}
	}
	return out
}

// oauthActs: start and callback requests.
func oauthActs(w *world.World, b string, providers, startQueries, codes []string) []engine.Action {
	var out []engine.Action
	other := "B1"
	if b == "B1" {
		other = "B2"
	}
	for _, p := range providers {
		p := p
		for _, q := range startQueries {
			q := q
			out = append(out, flows.A(fmt.Sprintf("oauth-start(%s,%s,%q)", b, p, q), func(s *world.Stack, _ *world.World) world.Req { return flows.OAuthStart(s, b, p, q) }, ""))
		}
		var states []cand
		if v := w.Browsers[b].Session["oauth2_state"]; v != "" {
			states = append(states, cand{"state:own", v})
		}
		if ob := w.Browsers[other]; ob != nil {
			if v := ob.Session["oauth2_state"]; v != "" {
				states = append(states, cand{"state:other-browser", v})
			}
		}
		if v := w.Truth.Flags["oauth-prev-state:"+b]; v != "" {
			states = append(states, cand{"state:previous", v})
		}
		states = append(states, cand{"state:empty", ""}, cand{"state:garbage", "Z2FyYmFnZQ=="})
		for _, st := range dedupe(states) {
			for _, code := range codes {
				st, code := st, code
				out = append(out, flows.A(fmt.Sprintf("oauth-cb(%s,%s,%s,code=%s)", b, p, st.note, code), func(s *world.Stack, _ *world.World) world.Req {
					r := flows.OAuthCallback(s, b, p, st.val, code, "")
					r.Tag.Note = st.note
					return r
				}, ""))
			}
			if st.note == "state:own" {
				st := st
				out = append(out, flows.A(fmt.Sprintf("oauth-cb(%s,%s,%s,error)", b, p, st.note), func(s *world.Stack, _ *world.World) world.Req {
					r := flows.OAuthCallback(s, b, p, st.val, "", "access_denied")
					r.Tag.Note = st.note
					return r
				}, ""))
			}
		}
	}
	return out
}

func e1Units(scs []engine.Scenario) []engine.Unit {
	var us []engine.Unit
	for _, sc := range scs {
		us = append(us, engine.E1Unit(sc))
	}
	return us
}

func init() {
	engine.Register(&engine.Property{
		ID: "C01", Level: "model_checking",
		Rule: "E1: breadth-first search over real HTTP requests pushed through the composed application (states = canonicalised database + per-browser jars + oracle memory); every transition that changes a session's user must be justified by ground truth; classes = distinct justification kinds and rejected-attempt kinds hit",
		Units: func(tier string) []engine.Unit {
			scs := c01Scenarios(tier)
			var vs []engine.Scenario
			if tier == "thorough" {
				vs = configVariants(scs, tier, "nil-state", "err500", "nomount")
				vs = append(vs, configVariants(only(scs, "S4-2fa"), tier, "err500", "nil-state")...)
				vs = append(vs, configVariants(only(scs, "S5-oauth2"), tier, "nomount", "nil-state")...)
			} else {
				// quick: one deployment variant each, on the scenario where it matters most
				vs = append(vs, configVariants(from(scs, "S2-otp-remember"), tier, "nil-state")...)
				vs = append(vs, configVariants(from(scs, "S4-2fa"), tier, "err500")...)
				vs = append(vs, configVariants(from(scs, "S5-oauth2"), tier, "nomount")...)
				vs = append(vs, configVariants(from(scs, "S3-register-confirm-recover"), tier, "json")...)
			}
			vs = append(vs, configVariants(scs[1:], tier, "faults")...)
			return e1Units(append(scs, vs...))
		},
		Assumptions: []string{
			"storer with database semantics, client-state stores with documented event semantics, deterministic crypto/rand, virtual clock (harness, DESIGN.md 2)",
			"bounded: 2-3 accounts, 2 browsers, request alphabets listed in props/c01.go, depth per tier",
		},
	})
}

// flipTokenBit flips one bit of the decoded token bytes and re-encodes.
func flipTokenBit(tok string, bit int) string {
	raw, err := base64.URLEncoding.DecodeString(tok)
	if err != nil || bit/8 >= len(raw) {
		return tok + "x"
	}
	raw[bit/8] ^= 1 << uint(bit%8)
	return base64.URLEncoding.EncodeToString(raw)
}
