package props

import (
	"context"
	"fmt"
	"net/http"
	"net/url"
	"strings"
	"time"

	"github.com/volatiletech/authboss/v3"
	"verif/engine"
	"verif/flows"
	"verif/world"
)

// C08 — the access middleware admits a request exactly when its requirements
// are met. E2: the complete product session contents x context pre-load x
// requirement bits x refusal mode x mount-path setting x Paths.Mount x API/form
// x request path x raw query, each compared with a reference function.

type c08Case struct {
	uid        string // absent | unknown | known | failing | empty
	half       bool
	twofa      bool
	preload    string // none | pid | user
	reqs       authboss.MWRequirements
	fail       authboss.MWRespondOnFailure
	mounted    bool
	mount      string
	api        bool
	path       string // escaped request path
	query      string
	deprecated bool
}

func (c c08Case) String() string {
	return fmt.Sprintf("uid=%s half=%v 2fa=%v preload=%s reqs=%d fail=%d mountPathed=%v mount=%q api=%v path=%q query=%q deprecated=%v",
		c.uid, c.half, c.twofa, c.preload, c.reqs, c.fail, c.mounted, c.mount, c.api, c.path, c.query, c.deprecated)
}

const (
	c08Known   = "known@x.io"
	c08Other   = "other@x.io" // the pid an upstream middleware pre-loads
	c08Unknown = "ghost@x.io"
)

var c08Paths = []string{"/", "/a", "/a/b", "/a%20b", "/%C3%A4", "/a%2Fb", "/" + strings.Repeat("p", 200), "/a/b/", "/a/../b", "/a//b"}
var c08Queries = []string{"", "x=1", "x=1&y=2", "redir=%2Fother", "a=%26b%3D", "q=a+b", "%zz", "next=/../../admin", "return=https://example.com/cb", "trail=1/"}

func c08Units(tier string) []engine.Unit {
	uids := []string{"absent", "unknown", "known", "failing", "empty"}
	var us []engine.Unit
	for _, uid := range uids {
		for _, mount := range []string{"/auth", ""} {
			uid, mount := uid, mount
			us = append(us, engine.Unit{Name: fmt.Sprintf("uid=%s,mount=%q", uid, mount), Run: func(dl time.Time) engine.UnitResult {
				return c08Run(uid, mount, tier, dl)
			}})
		}
	}
	return us
}

func c08Run(uidKind, mount, tier string, dl time.Time) engine.UnitResult {
	res := engine.UnitResult{Exhaustive: true, Distinct: map[string]bool{}, Cover: map[string]int{}}
	t0 := time.Now()
	cfg := world.Config{Modules: nil, Mount: mount, NoMount: mount == ""}
	s, err := world.NewStack(cfg)
	if err != nil {
		res.Violations = append(res.Violations, engine.Violation{Rule: "harness/init", Detail: err.Error()})
		return res
	}
	ab := s.AB
	base := world.NewWorld("B1")
	flows.SeedAcct(s, base, flows.Acct{PID: c08Known, Password: P1})
	flows.SeedAcct(s, base, flows.Acct{PID: c08Other, Password: P2})

	type hkey struct {
		preload    string
		reqs       authboss.MWRequirements
		fail       authboss.MWRespondOnFailure
		mounted    bool
		deprecated bool
	}
	handlers := map[hkey]http.Handler{}
	ran := 0
	var seenUser string
	probe := http.HandlerFunc(func(w http.ResponseWriter, r *http.Request) {
		ran++
		if u, err := ab.CurrentUser(r); err == nil && u != nil {
			seenUser = u.GetPID()
		}
		w.WriteHeader(200)
	})
	build := func(k hkey) http.Handler {
		var mw func(http.Handler) http.Handler
		if k.deprecated {
			mw = authboss.MountedMiddleware(ab, k.mounted, k.fail == authboss.RespondRedirect, k.reqs&authboss.RequireFullAuth != 0, k.reqs&authboss.Require2FA != 0)
		} else {
			mw = authboss.MountedMiddleware2(ab, k.mounted, k.reqs, k.fail)
		}
		var h http.Handler = mw(probe)
		inner := h
		switch k.preload {
		case "pid":
			h = http.HandlerFunc(func(w http.ResponseWriter, r *http.Request) {
				inner.ServeHTTP(w, r.WithContext(context.WithValue(r.Context(), authboss.CTXKeyPID, c08Other)))
			})
		case "user":
			h = http.HandlerFunc(func(w http.ResponseWriter, r *http.Request) {
				u := &world.UserPlain{Row: world.Row{PID: c08Other}}
				ctx := context.WithValue(r.Context(), authboss.CTXKeyPID, c08Other)
				ctx = context.WithValue(ctx, authboss.CTXKeyUser, authboss.User(u))
				inner.ServeHTTP(w, r.WithContext(ctx))
			})
		}
		return ab.LoadClientStateMiddleware(h)
	}

	paths, queries := c08Paths, c08Queries
	var sample []interface{}
	for _, preload := range []string{"none", "pid", "user"} {
		for reqs := authboss.MWRequirements(0); reqs < 4; reqs++ {
			for _, fail := range []authboss.MWRespondOnFailure{authboss.RespondNotFound, authboss.RespondRedirect, authboss.RespondUnauthorized} {
				for _, mounted := range []bool{false, true} {
					for _, deprecated := range []bool{false, true} {
						if deprecated && (fail == authboss.RespondUnauthorized || tier != "thorough" && preload != "none") {
							continue // the boolean entry points cannot express 401
						}
						k := hkey{preload, reqs, fail, mounted, deprecated}
						h, ok := handlers[k]
						if !ok {
							h = build(k)
							handlers[k] = h
						}
						s.Handler = h
						for _, half := range []bool{false, true} {
							for _, twofa := range []bool{false, true} {
								for _, api := range []bool{false, true} {
									for _, p := range paths {
										if mounted && mount != "" && (strings.HasSuffix(p, "/") && p != "/" || strings.Contains(p, "..") || strings.Contains(p, "//")) {
											continue // mount-pathed middleware guards authboss's own (clean) routes; path.Join(Mount, path) normalises
										}
										for _, q := range queries {
											if !dl.IsZero() && res.Evaluations%4096 == 0 && time.Now().After(dl) {
												res.Exhaustive, res.CapHit = false, "deadline"
												res.WallS = time.Since(t0).Seconds()
												return res
											}
											c := c08Case{uidKind, half, twofa, preload, reqs, fail, mounted, mount, api, p, q, deprecated}
											w := base.Clone()
											ses := w.Browsers["B1"].Session
											switch uidKind {
											case "unknown":
												ses["uid"] = c08Unknown
											case "known", "failing":
												ses["uid"] = c08Known
											case "empty":
												ses["uid"] = ""
											}
											if half {
												ses["halfauth"] = "true"
											}
											if twofa {
												ses["twofactor"] = "totp"
											}
											s.FaultLabel = ""
											if uidKind == "failing" {
												s.FaultLabel = "db.Load"
											}
											ran, seenUser = 0, ""
											rq := world.Req{Browser: "B1", Method: "GET", Path: p, ForceForm: !api, ForceJSON: api}
											if q != "" {
												rq.Path += "?" + q
											}
											o := s.Do(w, rq)
											res.Evaluations++
											class, bad := c08Check(c, o, ran, seenUser)
											if bad == "" && q == "" {
												// the same request as a CORS preflight (OPTIONS + Access-Control-Request-Method): the
												// middleware's verdict does not depend on the method
												ran, seenUser = 0, ""
												w2 := w.Clone()
												rq.Method, rq.Header = "OPTIONS", map[string]string{"Access-Control-Request-Method": "POST", "Origin": "https://app.example"}
												o2 := s.Do(w2, rq)
												res.Evaluations++
												if _, bad2 := c08Check(c, o2, ran, seenUser); bad2 != "" {
													bad = "method-dependent-verdict: as an OPTIONS preflight: " + bad2
												}
											}
											s.FaultLabel = ""
											res.Distinct[class] = true
											res.Cover[class]++
											if bad != "" {
												res.Violations = append(res.Violations, engine.Violation{Rule: "C08/" + strings.SplitN(bad, ":", 2)[0], Attrs: "expected=" + class,
													Detail: bad + " | case: " + c.String(), Scen: "product", Path: []string{c.String()}})
												if len(res.Violations) > 40 {
													res.Exhaustive, res.CapHit = false, "too-many-violations"
													return res
												}
											}
											if len(sample) < 3 && res.Evaluations%9973 == 1 {
												sample = append(sample, c.String()+" => "+class)
											}
										}
									}
								}
							}
						}
					}
				}
			}
		}
	}
	res.Samples = sample
	res.WallS = time.Since(t0).Seconds()
	return res
}

// c08Check is the reference function plus the comparison. It returns the
// expected outcome class and a description of the disagreement ("" = agrees).
func c08Check(c c08Case, o *world.Obs, ran int, seenUser string) (class, bad string) {
	meets := (c.reqs&authboss.RequireFullAuth == 0 || !c.half) && (c.reqs&authboss.Require2FA == 0 || c.twofa)
	effPID := ""
	switch c.uid {
	case "unknown":
		effPID = c08Unknown
	case "known", "failing":
		effPID = c08Known
	}
	if c.preload != "none" {
		effPID = c08Other
	}
	expect := ""
	wantUser := ""
	switch {
	case !meets:
		expect = "refuse"
	case c.preload == "user":
		expect, wantUser = "run", c08Other
	case effPID == "":
		expect = "refuse"
	case c.uid == "failing" || (c.preload == "pid" && false):
		expect = "500"
	case effPID == c08Unknown:
		expect = "refuse"
	default:
		expect, wantUser = "run", effPID
	}
	// the storage fault is planted on the first storage call whoever makes it
	if meets && c.preload == "pid" && c.uid == "failing" {
		expect = "500"
	}
	if o.Panic != "" {
		return expect, "panic: " + strings.SplitN(o.Panic, "\n", 2)[0]
	}
	switch expect {
	case "run":
		class = "run"
		if ran != 1 {
			return class, fmt.Sprintf("handler-did-not-run: requirements met and user loadable, but the handler ran %d times (status %d)", ran, o.Status)
		}
		if seenUser != wantUser {
			return class, fmt.Sprintf("wrong-user: handler saw user %q, want %q", seenUser, wantUser)
		}
		if o.Status != 200 {
			return class, fmt.Sprintf("status: handler ran but status is %d", o.Status)
		}
	case "500":
		class = "storage-error-500"
		if ran != 0 {
			return class, "handler-ran-on-storage-error: the handler ran although loading the user failed"
		}
		if o.Status != 500 {
			return class, fmt.Sprintf("storage-error-not-500: status %d", o.Status)
		}
	case "refuse":
		if ran != 0 {
			return "refuse", fmt.Sprintf("handler-ran-unauthorized: requirements not met / no loadable user, but the handler ran (status %d)", o.Status)
		}
		switch c.fail {
		case authboss.RespondNotFound:
			class = "refuse-404"
			if o.Status != 404 || o.Location != "" {
				return class, fmt.Sprintf("refusal-not-404: status %d location %q", o.Status, o.Location)
			}
		case authboss.RespondUnauthorized:
			class = "refuse-401"
			if o.Status != 401 || o.Location != "" {
				return class, fmt.Sprintf("refusal-not-401: status %d location %q", o.Status, o.Location)
			}
		case authboss.RespondRedirect:
			class = "refuse-redirect"
			wantStatus := 302
			if c.api {
				class = "refuse-redirect-api"
				wantStatus = 307
			}
			if o.Status != wantStatus {
				return class, fmt.Sprintf("redirect-status: got %d want %d", o.Status, wantStatus)
			}
			u, err := url.Parse(o.Location)
			if err != nil {
				return class, "redirect-location-unparsable: " + o.Location
			}
			if u.Path != c.mount+"/login" || u.Host != "" {
				return class, fmt.Sprintf("redirect-target: login page expected at %q, got %q", c.mount+"/login", o.Location)
			}
			decoded, _ := url.PathUnescape(c.path)
			want := decoded
			if c.mounted && c.mount != "" {
				want = c.mount + decoded
				if decoded == "/" {
					want = c.mount
				}
			}
			if c.query != "" {
				want += "?" + c.query
			}
			got := u.Query().Get("redir")
			if len(u.Query()) != 1 || got != want {
				return class, fmt.Sprintf("redirect-return-target: redir parameter is %q, want the original path and query %q (location %q)", got, want, o.Location)
			}
		}
	}
	return class, ""
}

func init() {
	engine.Register(&engine.Property{
		ID: "C08", Level: "exploration",
		Rule:        "complete Cartesian product of session uid kind (absent/unknown/known/known+failing storage/empty) x half-auth x 2FA mark x context pre-load (none/pid/user) x requirement bits x refusal mode x mountPathed x Paths.Mount x API/form x 10 request paths x 10 raw queries, Middleware2 and the deprecated boolean entry points; each outcome compared with a reference function; non-trivial classes = distinct reference outcomes (run, 404, 401, redirect, API redirect, 500)",
		Units:       c08Units,
		Need:        []string{"run", "refuse-404", "refuse-401", "refuse-redirect", "refuse-redirect-api", "storage-error-500"},
		Assumptions: []string{"for mountPathed=true with a non-empty Paths.Mount only clean paths are used (the option exists for authboss's own routes; path.Join(Mount, path) normalises the path); with an empty mount every path is used and must come back verbatim"},
	})
}
