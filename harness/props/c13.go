package props

import (
	"fmt"
	"strings"
	"time"

	"github.com/volatiletech/authboss/v3"
	"verif/engine"
	"verif/flows"
	"verif/world"
)

// C13 — only the fully authenticated owner, proving the factor, can change 2FA
// settings. E1 over every 2FA settings route from logged-in, half-authed,
// pending and anonymous sessions; the oracle diffs every account's 2FA fields
// around every request and demands, from ground truth, the session kind and
// the proof the statement requires.

func smsSentInSession(w *world.World, browser, code string) (number string, ok bool) {
	for i := len(w.Truth.SMSLog) - 1; i >= 0; i-- {
		m := w.Truth.SMSLog[i]
		if m.Browser == browser && m.Code == code {
			return m.Number, true
		}
	}
	return "", false
}

func csvLen(s string) int {
	if s == "" {
		return 0
	}
	return len(strings.Split(s, ","))
}

func c13Monitor(st *engine.Step) {
	o := st.Obs
	if o == nil {
		return
	}
	tag := o.Req.Tag
	pre, post := st.Pre, st.Post
	b := o.Req.Browser
	uid := o.UIDBefore()
	_, half := o.SessBefore[authboss.SessionHalfAuthKey]
	// a request that arrives with nothing but a remember cookie is half-authenticated "right now"
	if uid == "" && st.S.Cfg.Has("remember") && o.CookBefore["rm"] != "" {
		if sec := pre.Truth.ByVal("rm", o.CookBefore["rm"]); sec != nil && !sec.Dead {
			uid, half = sec.Owner, true
		}
	}
	if pre.Truth.Flags["c13:level:"+b] == "half" {
		half = true // the oracle's own record: restored from a cookie, no login completed since
	}
	emailReq := st.S.AB.Config.Modules.TwoFactorEmailAuthRequired
	authed := o.SessBefore[authboss.Session2FAAuthed] == "true"

	for pid, before := range pre.DB.Users {
		after := post.DB.Users[pid]
		changedTOTP := before.TOTPSecretKey != after.TOTPSecretKey
		changedSMS := before.SMSPhoneNumber != after.SMSPhoneNumber
		changedRC := before.RecoveryCodes != after.RecoveryCodes
		if !changedTOTP && !changedSMS && !changedRC {
			continue
		}
		what := []string{}
		if changedTOTP {
			what = append(what, "totp-secret")
		}
		if changedSMS {
			what = append(what, "sms-number")
		}
		if changedRC {
			what = append(what, "recovery-codes")
		}
		desc := strings.Join(what, "+")
		viol := func(rule, attrs, detail string) {
			st.Report(engine.Violation{Rule: "C13/" + rule, Attrs: attrs, Detail: fmt.Sprintf("%s of %s changed by %s %s from browser %s (session user %q, half-auth %v): %s", desc, pid, o.Req.Method, o.Req.Path, b, uid, half, detail)})
		}
		// recovery code consumption by a pending login is legitimate (C12's business)
		pendingUse := (tag.Kind == "totp_validate" && o.SessBefore["totp_pending"] == pid) || (tag.Kind == "sms_validate" && o.SessBefore["sms_pending"] == pid)
		if changedRC && !changedTOTP && !changedSMS && csvLen(after.RecoveryCodes) == csvLen(before.RecoveryCodes)-1 && (pendingUse || uid == pid) && tag.Recovery != "" {
			if sec := pre.Truth.ByVal("rc", tag.Recovery); sec != nil && !sec.Dead && sec.Owner == pid {
				continue
			}
			viol("recovery-code-removed-without-valid-code", "kind="+tag.Kind, "a recovery code disappeared although no unused recovery code of the account was presented")
			continue
		}
		if uid != pid {
			viol("changed-by-foreign-session", "kind="+tag.Kind+",what="+desc, "the requesting session is not logged in as that account")
			continue
		}
		if half {
			viol("changed-by-half-auth-session", "kind="+tag.Kind+",what="+desc, "the requesting session is only half-authenticated (remember cookie)")
			continue
		}
		switch {
		case changedTOTP && after.TOTPSecretKey != "":
			if tag.Kind != "totp_confirm" || !totpValidFor(pre, after.TOTPSecretKey, tag.Secret) {
				viol("totp-enabled-without-proof", "kind="+tag.Kind+",code="+tag.Note, "the code presented is not a valid code for the secret that was stored")
			}
			if emailReq && !authed {
				viol("enrolment-without-email-authorisation", "kind="+tag.Kind, "e-mail authorisation is required but the session had not presented the mailed token")
			}
		case changedTOTP && after.TOTPSecretKey == "":
			okc := tag.Kind == "totp_remove" && (totpValidFor(pre, before.TOTPSecretKey, tag.Secret) || liveRC(pre, pid, tag.Recovery))
			if !okc {
				viol("totp-disabled-without-proof", "kind="+tag.Kind+",code="+tag.Note, "neither a current code of the account's secret nor an unused recovery code was presented")
			}
		case changedSMS && after.SMSPhoneNumber != "":
			n, sent := smsSentInSession(pre, b, tag.Secret)
			if tag.Kind != "sms_confirm" || !sent || n != after.SMSPhoneNumber || tag.Secret == "" {
				viol("sms-enabled-without-proof", "kind="+tag.Kind+",code="+tag.Note, fmt.Sprintf("the code presented was not sent to the number being enrolled (%s); it was sent to %q", after.SMSPhoneNumber, n))
			}
			if emailReq && !authed {
				viol("enrolment-without-email-authorisation", "kind="+tag.Kind, "e-mail authorisation is required but the session had not presented the mailed token")
			}
		case changedSMS && after.SMSPhoneNumber == "":
			n, sent := smsSentInSession(pre, b, tag.Secret)
			if tag.Kind != "sms_remove" || !((sent && tag.Secret != "" && n == before.SMSPhoneNumber) || liveRC(pre, pid, tag.Recovery)) {
				viol("sms-disabled-without-proof", "kind="+tag.Kind+",code="+tag.Note, fmt.Sprintf("neither a code the library sent to the registered number %s in this session (the code presented was sent to %q) nor an unused recovery code was presented", before.SMSPhoneNumber, n))
			}
		case changedRC:
			reEnrol := false
			if tag.Kind == "sms_confirm" && tag.Secret != "" {
				n, sent := smsSentInSession(pre, b, tag.Secret)
				reEnrol = sent && n == after.SMSPhoneNumber
			}
			if tag.Kind == "totp_confirm" {
				reEnrol = totpValidFor(pre, after.TOTPSecretKey, tag.Secret)
			}
			if tag.Kind != "regen" && !reEnrol {
				viol("recovery-codes-replaced", "kind="+tag.Kind, "recovery codes were replaced by a request that is neither an enrolment nor a regeneration")
			}
		}
	}

	// e-mail authorisation
	if emailReq {
		gained := o.SessAfter[authboss.Session2FAAuthed] == "true" && !authed
		if gained {
			ok := false
			if tag.Kind == "verify_end" && tag.Secret != "" {
				if sec := pre.Truth.ByVal("vtok", tag.Secret); sec != nil && !sec.Dead && sec.Browser == b && sec.Owner == uid {
					ok = true
				}
			}
			if !ok {
				st.Report(engine.Violation{Rule: "C13/email-authorisation-without-token", Attrs: "kind=" + tag.Kind + ",token=" + tag.Note,
					Detail: fmt.Sprintf("browser %s gained the 2FA e-mail authorisation by %s with token class %s, which is not the non-empty token mailed to %q for this session", b, tag.Kind, tag.Note, uid)})
			}
		}
		// the enrolment routes only run with the authorisation
		started := (tag.Kind == "totp_setup" && o.SessAfter["totp_secret"] != o.SessBefore["totp_secret"] && o.SessAfter["totp_secret"] != "") ||
			(tag.Kind == "sms_setup" && o.SessAfter["sms_number"] != o.SessBefore["sms_number"] && o.SessAfter["sms_number"] != "")
		if started && !authed {
			st.Report(engine.Violation{Rule: "C13/enrolment-route-without-email-authorisation", Attrs: "kind=" + tag.Kind, Detail: "an enrolment route ran for a session that had not presented the mailed token"})
		}
		// a completed enrolment spends the authorisation
		if (tag.Kind == "totp_confirm" || tag.Kind == "sms_confirm") && uid != "" {
			bf, af := pre.DB.Users[uid], post.DB.Users[uid]
			if (bf.TOTPSecretKey != af.TOTPSecretKey && af.TOTPSecretKey != "") || (bf.SMSPhoneNumber != af.SMSPhoneNumber && af.SMSPhoneNumber != "") {
				if o.SessAfter[authboss.Session2FAAuthed] == "true" {
					st.Report(engine.Violation{Rule: "C13/authorisation-not-spent", Attrs: "kind=" + tag.Kind, Detail: "a completed enrolment left the e-mail authorisation in the session"})
				}
			}
		}
	}
}

// c13Model: a mailed token is spent by the verification it authorises.
// c13Level is the oracle's own record of how a browser's session came by its user: "half" when a
// remember cookie restored it and no login has been completed since (independent of the library's mark).
func c13Level(st *engine.Step) {
	o := st.Obs
	t := st.Post.Truth
	k := "c13:level:" + o.Req.Browser
	u, u2 := o.UIDBefore(), o.UIDAfter()
	tag := o.Req.Tag
	switch {
	case u2 == "":
		delete(t.Flags, k)
	case tag.Kind == "login":
		r, ok := st.Pre.DB.Users[tag.PID]
		if p, okp := world.PlainOf(r.Password); ok && okp && p == tag.Secret && tag.PID == u2 && r.TOTPSecretKey == "" && r.SMSPhoneNumber == "" {
			t.Flags[k] = "full" // a password login of an account without a second factor completes at once
		} else if u == "" && u2 != "" {
			t.Flags[k] = "half" // the cookie of the same request restored a user; the login itself did not complete
		} else if u2 != u {
			t.Flags[k] = "half" // the session names another user now, but no login of that user was completed
		}
	case (tag.Kind == "totp_validate" || tag.Kind == "sms_validate") && o.OK() && (o.SessBefore["totp_pending"] == u2 || o.SessBefore["sms_pending"] == u2) && o.SessAfter["totp_pending"] == "" && o.SessAfter["sms_pending"] == "":
		t.Flags[k] = "full" // a pending login was completed by its second factor
	case u == "" && u2 != "" && st.S.Cfg.Has("remember") && o.CookBefore["rm"] != "":
		t.Flags[k] = "half"
	}
}

func c13Model(st *engine.Step) {
	o := st.Obs
	if o == nil {
		return
	}
	c13Level(st)
	if o.Req.Tag.Kind != "verify_end" {
		return
	}
	if o.SessAfter[authboss.Session2FAAuthed] == "true" && o.SessBefore[authboss.Session2FAAuthed] != "true" {
		if sec := st.Post.Truth.ByVal("vtok", o.Req.Tag.Secret); sec != nil && !sec.Dead {
			sec.Dead, sec.Why, sec.Used = true, "used", true
		}
	}
}

func liveRC(w *world.World, pid, code string) bool {
	if code == "" {
		return false
	}
	sec := w.Truth.ByVal("rc", code)
	return sec != nil && !sec.Dead && sec.Owner == pid
}

func c13Cover(st *engine.Step) []string {
	o := st.Obs
	if o == nil {
		return nil
	}
	var c []string
	tag := o.Req.Tag
	for pid, before := range st.Pre.DB.Users {
		after := st.Post.DB.Users[pid]
		if before.TOTPSecretKey == "" && after.TOTPSecretKey != "" {
			c = append(c, "totp-enabled")
		}
		if before.TOTPSecretKey != "" && after.TOTPSecretKey == "" {
			c = append(c, "totp-disabled")
		}
		if before.SMSPhoneNumber == "" && after.SMSPhoneNumber != "" {
			c = append(c, "sms-enabled")
		}
		if before.SMSPhoneNumber != "" && after.SMSPhoneNumber == "" {
			c = append(c, "sms-disabled")
		}
		if tag.Kind == "regen" && before.RecoveryCodes != after.RecoveryCodes {
			c = append(c, "regenerated")
		}
	}
	if o.SessAfter[authboss.Session2FAAuthed] == "true" && o.SessBefore[authboss.Session2FAAuthed] != "true" {
		c = append(c, "email-authorised")
	}
	kind := "anonymous"
	switch {
	case o.UIDBefore() != "" && o.SessBefore[authboss.SessionHalfAuthKey] != "":
		kind = "half-authed"
	case o.UIDBefore() != "":
		kind = "full"
	case o.SessBefore["totp_pending"] != "" || o.SessBefore["sms_pending"] != "":
		kind = "pending"
	case o.CookBefore["rm"] != "":
		kind = "cookie-only"
	}
	switch tag.Kind {
	case "totp_setup", "totp_confirm", "totp_remove", "sms_setup", "sms_confirm", "sms_remove", "regen", "verify_start", "verify_end":
		c = append(c, "attempt:"+kind)
		if st.Pre.Truth.Flags["c13:level:"+o.Req.Browser] == "half" && (o.SessBefore["totp_pending"] != "" || o.SessBefore["sms_pending"] != "") {
			c = append(c, "attempt:half-authed+pending")
		}
	}
	return c
}

func c13Actions(emailReq bool, rich bool) func(s *world.Stack, w *world.World) []engine.Action {
	return func(s *world.Stack, w *world.World) []engine.Action {
		var a []engine.Action
		accounts := []string{U1, U2}
		for _, b := range bothBrowsers {
			ses := w.Browsers[b].Session
			// --- TOTP
			a = append(a, simple("totp-setup("+b+")", func(s *world.Stack) world.Req { return flows.TOTPSetup(s, b) }))
			var confirmC []cand
			if sec := ses["totp_secret"]; sec != "" {
				confirmC = append(confirmC, cand{"totp:for-session-secret", flows.TOTPCode(w, sec, 0)})
			}
			subj := w.UID(b)
			if r, ok := w.DB.Users[subj]; ok && r.TOTPSecretKey != "" {
				confirmC = append(confirmC, cand{"totp:for-current-factor", flows.TOTPCode(w, r.TOTPSecretKey, 0)})
			}
			confirmC = append(confirmC, cand{"code:000000", "000000"}, cand{"code:empty", ""})
			for _, c := range dedupe(confirmC) {
				a = append(a, flows.A(fmt.Sprintf("totp-confirm(%s,%s)", b, c.note), func(s *world.Stack, _ *world.World) world.Req {
					r := flows.TOTPConfirm(s, b, c.val)
					r.Tag.Note = c.note
					return r
				}, ""))
			}
			var removeC []cand
			for _, pid := range accounts {
				if r, ok := w.DB.Users[pid]; ok && r.TOTPSecretKey != "" {
					removeC = append(removeC, cand{"totp:of(" + short(pid) + ")", flows.TOTPCode(w, r.TOTPSecretKey, 0)})
				}
			}
			removeC = append(removeC, cand{"code:empty", ""})
			for _, c := range dedupe(removeC) {
				a = append(a, flows.A(fmt.Sprintf("totp-remove(%s,%s)", b, c.note), func(s *world.Stack, _ *world.World) world.Req {
					r := flows.TOTPRemove(s, b, c.val, "")
					r.Tag.Note = c.note
					return r
				}, ""))
			}
			// a pending login completed with a recovery code, and that (now used) code offered again for the removal
			if p := ses["totp_pending"]; p != "" && w.UID(b) == "" {
				if l := w.Truth.Live("rc", p); len(l) > 0 {
					v := l[0].Val
					a = append(a, flows.A(fmt.Sprintf("totp-validate(%s,rc:live)", b), func(s *world.Stack, _ *world.World) world.Req {
						r := flows.TOTPValidate(s, b, "", v)
						r.Tag.Note = "rc:live"
						return r
					}, ""))
				}
			}
			if subj := w.UID(b); subj != "" {
				if sec := w.Truth.NewestUsed("rc", subj); sec != nil {
					v := sec.Val
					a = append(a, flows.A(fmt.Sprintf("totp-remove(%s,rc:used)", b), func(s *world.Stack, _ *world.World) world.Req {
						r := flows.TOTPRemove(s, b, "", v)
						r.Tag.Note = "rc:used"
						return r
					}, ""))
				}
			}
			for _, pid := range accounts {
				if l := w.Truth.Live("rc", pid); len(l) > 0 {
					v := l[0].Val
					a = append(a, flows.A(fmt.Sprintf("totp-remove(%s,rc:of(%s))", b, short(pid)), func(s *world.Stack, _ *world.World) world.Req {
						r := flows.TOTPRemove(s, b, "", v)
						r.Tag.Note = "rc:of(" + short(pid) + ")"
						return r
					}, ""))
					if rich {
						a = append(a, flows.A(fmt.Sprintf("sms-remove(%s,rc:of(%s))", b, short(pid)), func(s *world.Stack, _ *world.World) world.Req {
							r := flows.SMSRemove(s, b, "", v)
							r.Tag.Note = "rc:of(" + short(pid) + ")"
							return r
						}, ""))
					}
				}
			}
			// --- SMS
			for _, n := range []string{N1, N2} {
				if n == N2 && !rich {
					continue
				}
				a = append(a, flows.A(fmt.Sprintf("sms-setup(%s,%s)", b, n), func(s *world.Stack, _ *world.World) world.Req { return flows.SMSSetup(s, b, n) }, ""))
			}
			smsC := smsCands(w, []string{N1, N2})
			smsC = append(smsC, cand{"resend", ""})
			for _, c := range smsC {
				a = append(a, flows.A(fmt.Sprintf("sms-confirm(%s,%s)", b, c.note), func(s *world.Stack, _ *world.World) world.Req {
					r := flows.SMSConfirm(s, b, c.val)
					r.Tag.Note = c.note
					return r
				}, ""))
				a = append(a, flows.A(fmt.Sprintf("sms-remove(%s,%s)", b, c.note), func(s *world.Stack, _ *world.World) world.Req {
					r := flows.SMSRemove(s, b, c.val, "")
					r.Tag.Note = c.note
					return r
				}, ""))
			}
			a = append(a, simple("regen("+b+")", func(s *world.Stack) world.Req { return flows.Regen(s, b) }))
			// --- e-mail authorisation
			if emailReq {
				for _, kind := range []string{"totp", "sms"} {
					if kind == "sms" && !rich {
						continue
					}
					a = append(a, simple(fmt.Sprintf("verify-start(%s,%s)", b, kind), func(s *world.Stack) world.Req { return flows.VerifyStart(s, b, kind) }))
					var toks []cand
					for _, sec := range w.Truth.Find("vtok", "") {
						switch {
						case !sec.Dead && sec.Browser == b:
							toks = append(toks, cand{"vtok:mailed-for-this-session", sec.Val})
						case !sec.Dead:
							toks = append(toks, cand{"vtok:mailed-for-other-session", sec.Val})
						default:
							toks = append(toks, cand{"vtok:previous", sec.Val})
						}
					}
					toks = append(toks, cand{"vtok:empty", ""}, cand{"vtok:garbage", "Z2FyYmFnZQ=="})
					for _, c := range dedupe(toks) {
						a = append(a, flows.A(fmt.Sprintf("verify-end(%s,%s,%s)", b, kind, c.note), func(s *world.Stack, _ *world.World) world.Req {
							r := flows.VerifyEnd(s, b, kind, c.val)
							r.Tag.Note = c.note
							return r
						}, ""))
					}
				}
			}
			a = append(a, simple("logout("+b+")", func(s *world.Stack) world.Req { return flows.Logout(s, b) }))
			a = append(a, flows.Restart(b))
		}
		a = append(a, flows.A("login(B1,u1,pw:cur,rm)", func(s *world.Stack, _ *world.World) world.Req { return flows.Login(s, "B1", U1, P1, true) }, ""))
		a = append(a, flows.A("login(B2,u2,pw:cur)", func(s *world.Stack, _ *world.World) world.Req { return flows.Login(s, "B2", U2, P2, false) }, ""))
		if w.UID("B1") == U1 && w.DB.Users[U1].TOTPSecretKey != "" {
			// the other account's password typed into a session that is fully (two-factor) logged in as u1
			a = append(a, flows.A("login(B1,u2,pw:cur)", func(s *world.Stack, _ *world.World) world.Req { return flows.Login(s, "B1", U2, P2, false) }, ""))
		}
		a = append(a, flows.Advance(11*time.Second))
		return a
	}
}

func c13Scenarios(tier string) []engine.Scenario {
	depth := 3
	if tier == "thorough" {
		depth = 4
	}
	var out []engine.Scenario
	for _, emailReq := range []bool{false, true} {
		for _, unauth := range []authboss.MWRespondOnFailure{authboss.RespondNotFound, authboss.RespondRedirect} {
			for _, e500 := range []bool{false, true} {
				if tier != "thorough" && (unauth == authboss.RespondRedirect && emailReq || e500 && unauth == authboss.RespondRedirect) {
					continue
				}
				sc := engine.Scenario{
					Name:  fmt.Sprintf("email-auth=%v,unauthed=%d,err500=%v", emailReq, unauth, e500),
					Depth: depth,
					Cfg:   world.Config{Modules: []string{"auth", "remember", "logout", "totp2fa", "sms2fa", "recovery"}, EmailAuthRequired: emailReq, OnUnauthed: unauth, Err500: e500},
					Init: func(s *world.Stack) *world.World {
						w := world.NewWorld("B1", "B2")
						flows.SeedAcct(s, w, flows.Acct{PID: U1, Password: P1})
						flows.SeedAcct(s, w, flows.Acct{PID: U2, Password: P2, TOTPSecret: flows.TOTPSecrets[1], RecoveryCodes: []string{"ddddd-44444", "eeeee-55555"}})
						// B1 starts fully logged in as U1 (a real login with remember-me)
						flows.Exec(s, w, flows.Login(s, "B1", U1, P1, true), "")
						return w
					},
					Model: c13Model, Monitor: c13Monitor, Cover: c13Cover,
					Actions: c13Actions(emailReq, tier == "thorough"),
				}
				if emailReq {
					sc.Depth = depth + 2 // authorisation takes two extra requests
				}
				out = append(out, engine.Sharded(sc, 8)...)
				if !emailReq && !e500 && unauth == authboss.RespondNotFound {
					// the same with a session store that returns a nil state for a browser without a session
					// (the first, cookie-only request of a restarted browser is then served without any state)
					ns := sc
					ns.Name += ",nil-state"
					ns.Cfg.NilEmptyState = true
					out = append(out, engine.Sharded(ns, 8)...)
				}
			}
		}
	}
	// a session that already holds the e-mail authorisation: both kinds of enrolment interleaved
	{
		sc := engine.Scenario{
			Name: "email-auth=true,pre-authorised", Depth: depth + 1,
			Cfg: world.Config{Modules: []string{"auth", "remember", "logout", "totp2fa", "sms2fa", "recovery"}, EmailAuthRequired: true},
			Init: func(s *world.Stack) *world.World {
				w := world.NewWorld("B1", "B2")
				flows.SeedAcct(s, w, flows.Acct{PID: U1, Password: P1})
				flows.SeedAcct(s, w, flows.Acct{PID: U2, Password: P2, TOTPSecret: flows.TOTPSecrets[1], RecoveryCodes: []string{"ddddd-44444", "eeeee-55555"}})
				flows.Exec(s, w, flows.Login(s, "B1", U1, P1, false), "")
				flows.Exec(s, w, flows.VerifyStart(s, "B1", "totp"), "")
				tok := w.Truth.Newest("vtok", U1, false)
				flows.Exec(s, w, flows.VerifyEnd(s, "B1", "totp", tok.Val), "")
				tok.Dead, tok.Used, tok.Why = true, true, "used"
				return w
			},
			Model: c13Model, Monitor: c13Monitor, Cover: c13Cover,
			Actions: c13Actions(true, false),
		}
		out = append(out, engine.Sharded(sc, 8)...)
	}
	// the application answers EventTwoFactorAdded / Removed itself (redirects to its own page)
	{
		sc := engine.Scenario{
			Name: "email-auth=true,pre-authorised,app-2fa-handler", Depth: depth + 1,
			Cfg: world.Config{Modules: []string{"auth", "remember", "logout", "totp2fa", "sms2fa", "recovery"}, EmailAuthRequired: true, App2FAHandler: true},
			Init: func(s *world.Stack) *world.World {
				w := world.NewWorld("B1", "B2")
				flows.SeedAcct(s, w, flows.Acct{PID: U1, Password: P1})
				flows.SeedAcct(s, w, flows.Acct{PID: U2, Password: P2, TOTPSecret: flows.TOTPSecrets[1], RecoveryCodes: []string{"ddddd-44444", "eeeee-55555"}})
				flows.Exec(s, w, flows.Login(s, "B1", U1, P1, false), "")
				flows.Exec(s, w, flows.VerifyStart(s, "B1", "totp"), "")
				tok := w.Truth.Newest("vtok", U1, false)
				flows.Exec(s, w, flows.VerifyEnd(s, "B1", "totp", tok.Val), "")
				tok.Dead, tok.Used, tok.Why = true, true, "used"
				return w
			},
			Model: c13Model, Monitor: c13Monitor, Cover: c13Cover,
			Actions: c13Actions(true, false),
		}
		out = append(out, engine.Sharded(sc, 8)...)
	}
	// the account with a second factor comes back on a remember cookie: submitting the password again only parks a login
	{
		sc := engine.Scenario{
			Name: "enrolled,returning-on-cookie", Depth: depth,
			Cfg: world.Config{Modules: []string{"auth", "remember", "logout", "totp2fa", "sms2fa", "recovery"}},
			Init: func(s *world.Stack) *world.World {
				w := world.NewWorld("B1", "B2")
				flows.SeedAcct(s, w, flows.Acct{PID: U1, Password: P1})
				flows.SeedAcct(s, w, flows.Acct{PID: U2, Password: P2, TOTPSecret: flows.TOTPSecrets[1], RecoveryCodes: []string{"ddddd-44444", "eeeee-55555"}})
				// the remember cookie dates from before the account enabled its second factor (a 2FA login is
				// never given one): real login with remember-me while the factor is off, then browser restart
				// and a first request on the cookie
				r := w.DB.Users[U2]
				sec := r.TOTPSecretKey
				r.TOTPSecretKey = ""
				w.DB.Users[U2] = r
				flows.Exec(s, w, flows.Login(s, "B2", U2, P2, true), "")
				r = w.DB.Users[U2]
				r.TOTPSecretKey = sec
				w.DB.Users[U2] = r
				w.Browsers["B2"].Session = map[string]string{}
				flows.Exec(s, w, flows.Open("B2"), "")
				if w.Browsers["B2"].Session["uid"] != U2 {
					panic("c13: returning-on-cookie fixture did not produce a cookie session")
				}
				w.Truth.Flags["c13:level:B2"] = "half"
				return w
			},
			Model: c13Model, Monitor: c13Monitor, Cover: c13Cover,
			Actions: c13Actions(false, false),
			Need:    []string{"attempt:half-authed", "attempt:half-authed+pending"},
		}
		out = append(out, engine.Sharded(sc, 8)...)
	}
	// two accounts with TOTP; B1 is fully (password + code) logged in as the first and types the second one's password
	{
		sc := engine.Scenario{
			Name: "enrolled,two-totp-accounts", Depth: depth,
			Cfg: world.Config{Modules: []string{"auth", "remember", "logout", "totp2fa", "sms2fa", "recovery"}},
			Init: func(s *world.Stack) *world.World {
				w := world.NewWorld("B1", "B2")
				flows.SeedAcct(s, w, flows.Acct{PID: U1, Password: P1, TOTPSecret: flows.TOTPSecrets[0], RecoveryCodes: []string{"aaaaa-11111", "bbbbb-22222"}})
				flows.SeedAcct(s, w, flows.Acct{PID: U2, Password: P2, TOTPSecret: flows.TOTPSecrets[1], RecoveryCodes: []string{"ddddd-44444", "eeeee-55555"}})
				flows.Exec(s, w, flows.Login(s, "B1", U1, P1, false), "")
				flows.Exec(s, w, flows.TOTPValidate(s, "B1", flows.TOTPCode(w, flows.TOTPSecrets[0], 0), ""), "")
				if w.Browsers["B1"].Session["uid"] != U1 || w.Browsers["B1"].Session["twofactor"] != "totp" {
					panic("c13: two-totp fixture did not produce a two-factor session")
				}
				w.Truth.Flags["c13:level:B1"] = "full"
				return w
			},
			Model: c13Model, Monitor: c13Monitor, Cover: c13Cover,
			Actions: c13Actions(false, false),
		}
		out = append(out, engine.Sharded(sc, 8)...)
	}
	// accounts that already have a factor: disabling, re-keying, from every session kind
	for _, e500 := range []bool{false, true} {
		sc := engine.Scenario{
			Name: fmt.Sprintf("enrolled,err500=%v", e500), Depth: depth + 1,
			Cfg: world.Config{Modules: []string{"auth", "remember", "logout", "totp2fa", "sms2fa", "recovery"}, Err500: e500},
			Init: func(s *world.Stack) *world.World {
				w := world.NewWorld("B1", "B2")
				flows.SeedAcct(s, w, flows.Acct{PID: U1, Password: P1, SMSNumber: N1, RecoveryCodes: []string{"aaaaa-11111", "bbbbb-22222"}})
				flows.SeedAcct(s, w, flows.Acct{PID: U2, Password: P2, TOTPSecret: flows.TOTPSecrets[1], RecoveryCodes: []string{"ddddd-44444", "eeeee-55555"}})
				w.Browsers["B1"].Session["uid"] = U1
				w.Browsers["B1"].Session["twofactor"] = "sms"
				return w
			},
			Model: c13Model, Monitor: c13Monitor, Cover: c13Cover,
			Actions: c13Actions(false, true),
		}
		out = append(out, engine.Sharded(sc, 8)...)
	}
	return out
}

func init() {
	engine.Register(&engine.Property{
		ID: "C13", Level: "model_checking",
		Rule: "E1 over every 2FA settings route (setup / confirm / remove / regen / e-mail verify start+end, TOTP and SMS) from fully authenticated, half-authenticated (incl. the first request that carries only the cookie), pending and anonymous sessions with code / token alphabets (valid for the secret being enrolled, for the current factor, another account's, recovery codes, empty, zeros; token mailed for this / the other session, previous, empty, garbage); oracle diffs all accounts' 2FA fields around every request; classes = change kinds and attempting session kinds",
		Units: func(tier string) []engine.Unit {
			scs := c13Scenarios(tier)
			return e1Units(append(scs, configVariants(scs, tier, "faults:-confirm(|-remove(|-setup(|verify-end(|regen(", "preload-user")...))
		},
		Need:        []string{"totp-enabled", "sms-enabled", "totp-disabled", "sms-disabled", "regenerated", "email-authorised", "attempt:full", "attempt:half-authed", "attempt:pending", "attempt:anonymous", "attempt:cookie-only"},
		Assumptions: []string{"for SMS removal 'a current code' is a code the library sent to the registered number in this session", "bounded depth, 2 accounts, 2 browsers"},
	})
}
