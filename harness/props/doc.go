// Package props holds one file per property: its scenarios (configuration,
// initial world, action menu), its oracle, and its registration.
package props
