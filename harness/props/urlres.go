package props

import "strings"

// resolveOrigin is a browser-faithful (WHATWG URL standard) classification of
// where a browser would navigate when given `target` on a page whose URL is
// baseScheme://baseHost/... It implements the parts of the basic URL parser
// that decide the origin: stripping of leading/trailing C0-control-or-space,
// removal of ASCII tab and newline, scheme detection, "special" schemes with
// backslash == slash and missing/extra slashes, userinfo. It is deliberately
// conservative: whatever it cannot parse is classified as staying on the page
// (a browser does not navigate on a parse failure), so it can miss exotic
// spellings but cannot raise a false alarm.
//
// Returned class: "same-site", "off-site-host", "other-scheme" (http<->https
// on the same host is another origin), "non-http-scheme".
func resolveOrigin(target, baseScheme, baseHost string) (class, scheme, host string) {
	s := target
	// 1. strip leading and trailing C0 control or space
	for len(s) > 0 && s[0] <= 0x20 {
		s = s[1:]
	}
	for len(s) > 0 && s[len(s)-1] <= 0x20 {
		s = s[:len(s)-1]
	}
	// 2. remove all ASCII tab or newline
	s = strings.Map(func(r rune) rune {
		if r == '\t' || r == '\n' || r == '\r' {
			return -1
		}
		return r
	}, s)
	if s == "" {
		return "same-site", baseScheme, baseHost
	}
	special := map[string]bool{"http": true, "https": true, "ftp": true, "ws": true, "wss": true, "file": true}
	isSlash := func(c byte) bool { return c == '/' || c == '\\' }

	// 3. scheme state
	sch := ""
	if c := s[0]; (c >= 'a' && c <= 'z') || (c >= 'A' && c <= 'Z') {
		i := 1
		for i < len(s) {
			c := s[i]
			if (c >= 'a' && c <= 'z') || (c >= 'A' && c <= 'Z') || (c >= '0' && c <= '9') || c == '+' || c == '-' || c == '.' {
				i++
				continue
			}
			break
		}
		if i < len(s) && s[i] == ':' {
			sch = strings.ToLower(s[:i])
			s = s[i+1:]
		}
	}
	parseAuthority := func(rest string, scheme string) (string, string, string) {
		// authority ends at / \ ? #
		end := len(rest)
		for i := 0; i < len(rest); i++ {
			if c := rest[i]; c == '/' || c == '\\' || c == '?' || c == '#' {
				end = i
				break
			}
		}
		auth := rest[:end]
		if at := strings.LastIndexByte(auth, '@'); at >= 0 {
			auth = auth[at+1:]
		}
		h := auth
		if strings.HasPrefix(h, "[") {
			return "same-site", baseScheme, baseHost // IPv6 literals: not in the alphabet, be conservative
		}
		if c := strings.IndexByte(h, ':'); c >= 0 {
			port := h[c+1:]
			for _, d := range port {
				if d < '0' || d > '9' {
					return "same-site", baseScheme, baseHost // invalid port: parse failure, no navigation
				}
			}
			h = h[:c]
		}
		h = strings.ToLower(h)
		if h == "" || strings.ContainsAny(h, " %<>^|`{}\"") {
			return "same-site", baseScheme, baseHost // empty or forbidden host code point: failure
		}
		h = strings.TrimSuffix(h, ".")
		switch {
		case h != strings.TrimSuffix(strings.ToLower(baseHost), "."):
			return "off-site-host", scheme, h
		case scheme != baseScheme:
			return "other-scheme", scheme, h
		}
		return "same-site", scheme, h
	}
	if sch != "" {
		if !special[sch] {
			return "non-http-scheme", sch, ""
		}
		if sch == "file" {
			return "non-http-scheme", sch, ""
		}
		if sch == baseScheme {
			// special relative or authority state
			if len(s) >= 2 && s[0] == '/' && s[1] == '/' {
				rest := s[2:]
				for len(rest) > 0 && isSlash(rest[0]) {
					rest = rest[1:]
				}
				return parseAuthority(rest, sch)
			}
			// relative state (relative to the base URL)
			if len(s) >= 2 && isSlash(s[0]) && isSlash(s[1]) {
				rest := s[2:]
				for len(rest) > 0 && isSlash(rest[0]) {
					rest = rest[1:]
				}
				return parseAuthority(rest, sch)
			}
			return "same-site", baseScheme, baseHost
		}
		// special authority slashes state: any number of slashes/backslashes is skipped
		rest := s
		for len(rest) > 0 && isSlash(rest[0]) {
			rest = rest[1:]
		}
		return parseAuthority(rest, sch)
	}
	// no scheme: relative state against a special base
	if len(s) >= 2 && isSlash(s[0]) && isSlash(s[1]) {
		rest := s[2:]
		for len(rest) > 0 && isSlash(rest[0]) {
			rest = rest[1:]
		}
		return parseAuthority(rest, baseScheme)
	}
	return "same-site", baseScheme, baseHost
}

// resolverSelfTest checks the resolver against examples whose resolution the
// URL standard fixes (scheme state, special-relative-or-authority state,
// special-authority-slashes state, relative-slash state, userinfo, stripping).
// It returns a description of the first disagreement, or "".
func resolverSelfTest() string {
	type tc struct{ in, base, want string }
	cases := []tc{
		{"", "http", "same-site"}, {"/path?q#f", "http", "same-site"}, {"path", "http", "same-site"}, {"?q=1", "http", "same-site"}, {"#frag", "http", "same-site"},
		{"//evil.test", "http", "off-site-host"}, {"//evil.test/x", "https", "off-site-host"}, {"///evil.test", "http", "off-site-host"},
		{"/\\evil.test", "http", "off-site-host"}, {"\\/evil.test", "http", "off-site-host"}, {"\\\\evil.test", "http", "off-site-host"},
		{"\\evil.test", "http", "same-site"},
		{"http://evil.test", "http", "off-site-host"}, {"HtTp://evil.test", "http", "off-site-host"},
		{"https:evil.test", "http", "off-site-host"}, {"https:evil.test", "https", "same-site"}, {"http:evil.test", "http", "same-site"},
		{"http:/evil.test", "http", "same-site"}, {"http:/\\evil.test", "http", "off-site-host"}, {"https:/evil.test", "http", "off-site-host"},
		{"http://site.test/x", "http", "same-site"}, {"https://site.test/x", "http", "other-scheme"}, {"//SITE.TEST", "http", "same-site"}, {"//site.test.", "http", "same-site"},
		{"//site.test:80/x", "http", "same-site"}, {"//site.test:x", "http", "same-site"},
		{"//evil.test@site.test", "http", "same-site"}, {"//site.test@evil.test", "http", "off-site-host"}, {"//a:b@evil.test", "http", "off-site-host"},
		{"javascript:alert(1)", "http", "non-http-scheme"}, {"JaVaScRiPt:alert(1)", "https", "non-http-scheme"}, {"data:text/html,x", "http", "non-http-scheme"}, {"mailto:a@b", "http", "non-http-scheme"},
		{"\t//evil.test", "http", "off-site-host"}, {"/\t/evil.test", "http", "off-site-host"}, {"/\n/evil.test", "http", "off-site-host"}, {" //evil.test", "http", "off-site-host"}, {"\x00//evil.test", "http", "off-site-host"}, {"\x01//evil.test", "http", "off-site-host"}, {"\u00a0//evil.test", "http", "same-site"}, {"\x01\\/evil.test", "http", "off-site-host"},
		{"/ /evil.test", "http", "same-site"}, {"/#/../\\evil.test", "http", "same-site"}, {"/\\evil.test/", "http", "off-site-host"}, {"/%2f/evil.test", "http", "same-site"}, {"/.//evil.test", "http", "same-site"}, {"1http://evil.test", "http", "same-site"}, {":evil.test", "http", "same-site"},
		{"ht\ttp://evil.test", "http", "off-site-host"}, {"//evil.test\\@site.test", "http", "off-site-host"},
	}
	for _, c := range cases {
		if got, _, _ := resolveOrigin(c.in, c.base, "site.test"); got != c.want {
			return "resolveOrigin(" + strconvQuote(c.in) + ", base " + c.base + ") = " + got + ", want " + c.want
		}
	}
	return ""
}

func strconvQuote(s string) string {
	var sb strings.Builder
	sb.WriteByte('"')
	for i := 0; i < len(s); i++ {
		c := s[i]
		if c < 0x20 || c == '"' || c == '\\' || c > 0x7e {
			sb.WriteString("\\x" + string("0123456789abcdef"[c>>4]) + string("0123456789abcdef"[c&15]))
		} else {
			sb.WriteByte(c)
		}
	}
	sb.WriteByte('"')
	return sb.String()
}
