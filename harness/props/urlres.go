package props

import "strings"

// resolveOrigin is a browser-faithful (WHATWG URL standard) classification of
// where a browser would navigate when given `target` on a page whose URL is
// baseScheme://baseHost/... It implements the parts of the basic URL parser
// that decide the origin: stripping of leading/trailing C0-control-or-space,
// removal of ASCII tab and newline, scheme detection, "special" schemes with
// backslash == slash and missing/extra slashes, userinfo. It is deliberately
// conservative: whatever it cannot parse is classified as staying on the page
// (a browser does not navigate on a parse failure), so it can miss exotic
// spellings but cannot raise a false alarm.
//
// Returned class: "same-site", "off-site-host", "other-scheme" (http<->https
// on the same host is another origin), "non-http-scheme".
func resolveOrigin(target, baseScheme, baseHost string) (class, scheme, host string) {
	s := target
	// 1. strip leading and trailing C0 control or space
	for len(s) > 0 && s[0] <= 0x20 {
		s = s[1:]
	}
	for len(s) > 0 && s[len(s)-1] <= 0x20 {
		s = s[:len(s)-1]
	}
	// 2. remove all ASCII tab or newline
	s = strings.Map(func(r rune) rune {
		if r == '\t' || r == '\n' || r == '\r' {
			return -1
		}
		return r
	}, s)
	if s == "" {
		return "same-site", baseScheme, baseHost
	}
	special := map[string]bool{"http": true, "https": true, "ftp": true, "ws": true, "wss": true, "file": true}
	isSlash := func(c byte) bool { return c == '/' || c == '\\' }

	// 3. scheme state
	sch := ""
	if c := s[0]; (c >= 'a' && c <= 'z') || (c >= 'A' && c <= 'Z') {
		i := 1
		for i < len(s) {
			c := s[i]
			if (c >= 'a' && c <= 'z') || (c >= 'A' && c <= 'Z') || (c >= '0' && c <= '9') || c == '+' || c == '-' || c == '.' {
				i++
				continue
			}
			break
		}
		if i < len(s) && s[i] == ':' {
			sch = strings.ToLower(s[:i])
			s = s[i+1:]
		}
	}
	parseAuthority := func(rest string, scheme string) (string, string, string) {
		// authority ends at / \ ? #
		end := len(rest)
		for i := 0; i < len(rest); i++ {
			if c := rest[i]; c == '/' || c == '\\' || c == '?' || c == '#' {
				end = i
				break
			}
		}
		auth := rest[:end]
		if at := strings.LastIndexByte(auth, '@'); at >= 0 {
			auth = auth[at+1:]
		}
		h := auth
		if strings.HasPrefix(h, "[") {
			return "same-site", baseScheme, baseHost // IPv6 literals: not in the alphabet, be conservative
		}
		if c := strings.IndexByte(h, ':'); c >= 0 {
			port := h[c+1:]
			for _, d := range port {
				if d < '0' || d > '9' {
					return "same-site", baseScheme, baseHost // invalid port: parse failure, no navigation
				}
			}
			h = h[:c]
		}
		h = strings.ToLower(h)
		if h == "" || strings.ContainsAny(h, " %<>^|`{}\"") {
			return "same-site", baseScheme, baseHost // empty or forbidden host code point: failure
		}
		h = strings.TrimSuffix(h, ".")
		switch {
		case h != strings.TrimSuffix(strings.ToLower(baseHost), "."):
			return "off-site-host", scheme, h
		case scheme != baseScheme:
			return "other-scheme", scheme, h
		}
		return "same-site", scheme, h
	}
	if sch != "" {
		if !special[sch] {
			return "non-http-scheme", sch, ""
		}
		if sch == "file" {
			return "non-http-scheme", sch, ""
		}
		if sch == baseScheme {
			// special relative or authority state
			if len(s) >= 2 && s[0] == '/' && s[1] == '/' {
				rest := s[2:]
				for len(rest) > 0 && isSlash(rest[0]) {
					rest = rest[1:]
				}
				return parseAuthority(rest, sch)
			}
			// relative state (relative to the base URL)
			if len(s) >= 2 && isSlash(s[0]) && isSlash(s[1]) {
				rest := s[2:]
				for len(rest) > 0 && isSlash(rest[0]) {
					rest = rest[1:]
				}
				return parseAuthority(rest, sch)
			}
			return "same-site", baseScheme, baseHost
		}
		// special authority slashes state: any number of slashes/backslashes is skipped
		rest := s
		for len(rest) > 0 && isSlash(rest[0]) {
			rest = rest[1:]
		}
		return parseAuthority(rest, sch)
	}
	// no scheme: relative state against a special base
	if len(s) >= 2 && isSlash(s[0]) && isSlash(s[1]) {
		rest := s[2:]
		for len(rest) > 0 && isSlash(rest[0]) {
			rest = rest[1:]
		}
		return parseAuthority(rest, baseScheme)
	}
	return "same-site", baseScheme, baseHost
}
