package props

import (
	"context"
	"fmt"
	"reflect"
	"strings"
	"unicode"

	"golang.org/x/crypto/bcrypt"
	"verif/engine"
	"verif/flows"
	"verif/world"
)

// C06 — a password change revokes the old password, recovery link and
// remember tokens. E1 over cookie-holder subsets x change method x password
// pairs; after every state in which a change has completed (the oracle's own
// record), probes run on clones: real logins with old / new passwords, real
// requests carrying pre-change cookies, inspection of the stored field.

var c06NewPasswords = []cand{
	{"same-as-old", P1},
	{"last-byte-differs", "Passw0rd!2x"[:10]},
	{"case-differs", "PASSW0RD!1"},
	{"non-ascii", "Pässw0rd→1!"},
	{"72-bytes", "Aa1!" + strings.Repeat("z", 68)},
	{"73-bytes", "Aa1!" + strings.Repeat("z", 69)},
	{"one-char", "x"},
}

func policyOK(pw string) bool {
	var up, lo, di, sy int
	for _, c := range pw {
		switch {
		case unicode.IsLetter(c) && unicode.IsUpper(c):
			up++
		case unicode.IsLetter(c):
			lo++
		case unicode.IsDigit(c):
			di++
		case unicode.IsSpace(c):
			return false
		default:
			sy++
		}
	}
	return len(pw) >= 8 && up >= 1 && lo >= 1 && di >= 1 && sy >= 1
}

// updatePassword is the administrator action, recording its outcome for the model.
func c06UpdatePassword(pid string, np cand) engine.Action {
	return flows.Env(fmt.Sprintf("update-password(%s,%s)", short(pid), np.note), func(s *world.Stack, w *world.World) {
		u, err := s.AB.Config.Storage.Server.Load(context.Background(), pid)
		if err == nil {
			err = s.AB.UpdatePassword(context.Background(), u.(interface {
				GetPID() string
				PutPID(string)
				GetPassword() string
				PutPassword(string)
			}), np.val)
		}
		if err == nil {
			c06Changed(w, pid, np.val)
		}
	})
}

// c06Changed is the oracle's record of a completed change: the new password
// replaces the old one, and every remember token issued before is revoked.
func c06Changed(w *world.World, pid, newpw string) {
	t := w.Truth
	old := t.Flags["c06:pw:"+pid]
	if old != newpw {
		t.Flags["c06:oldpw:"+pid] = old
	}
	t.Flags["c06:pw:"+pid] = newpw
	t.Ints["c06:changes:"+pid]++
	t.Flags["c06:hashof:"+newpw] = w.DB.Users[pid].Password
	t.Kill("rm", pid, "revoked")
}

func c06Model(st *engine.Step) {
	o := st.Obs
	if o == nil || o.Req.Tag.Kind != "recover_end" {
		return
	}
	tag := o.Req.Tag
	sec := liveRecoverToken(st.Pre, tag.Secret, st.S.AB.Config.Modules.RecoverTokenDuration)
	if sec == nil || !policyOK(tag.Code) || len(tag.Code) > 72 {
		return
	}
	c06Changed(st.Post, sec.Owner, tag.Code)
	if s2 := st.Post.Truth.ByVal("rtok", sec.Val); s2 != nil && !s2.Dead {
		s2.Dead, s2.Why, s2.Used = true, "used", true
	}
}

func c06Monitor(st *engine.Step) {
	o := st.Obs
	if o != nil && o.Req.Tag.Kind == "recover_end" {
		tag := o.Req.Tag
		sec := liveRecoverToken(st.Pre, tag.Secret, st.S.AB.Config.Modules.RecoverTokenDuration)
		if sec != nil && (!policyOK(tag.Code) || len(tag.Code) > 72) && !reflect.DeepEqual(st.Pre.DB.Users, st.Post.DB.Users) {
			st.Report(engine.Violation{Rule: "C06/refused-change-modified-storage", Attrs: "pw=" + tag.Note,
				Detail: "a recovery submission whose new password the library itself refuses changed the database"})
		}
	}
	// frame: the bystander is never affected by anything that does not name it
	if !reflect.DeepEqual(st.Pre.DB.Users[U2], st.Post.DB.Users[U2]) || !reflect.DeepEqual(st.Pre.DB.Tokens[U2], st.Post.DB.Tokens[U2]) {
		own := false
		if o != nil {
			if o.Req.Tag.PID == U2 {
				own = true
			}
			if sec := st.Pre.Truth.ByVal("rm", o.CookBefore["rm"]); !own && sec != nil && sec.Owner == U2 {
				// the bystander's own cookie is being used: its token is replaced by a fresh one, nothing more
				own = len(st.Post.DB.Tokens[U2]) == len(st.Pre.DB.Tokens[U2]) && reflect.DeepEqual(st.Pre.DB.Users[U2], st.Post.DB.Users[U2])
			}
		}
		if !own {
			st.Report(engine.Violation{Rule: "C06/other-account-affected", Detail: "a step that does not concern the bystander modified its row or remember tokens (" + st.Act.Name + ")"})
		}
	}
	// revocation in storage, whether or not the remember module is loaded in this process
	if a, b := st.Pre.Truth.Ints["c06:changes:"+U1], st.Post.Truth.Ints["c06:changes:"+U1]; b > a && len(st.Post.DB.Tokens[U1]) > 0 && len(st.Pre.DB.Tokens[U1]) > 0 && (st.S.Cfg.Has("remember") || st.Obs == nil) {
		// (a recovery in a process that has not loaded the remember module has no handler that could revoke them;
		// the programmatic update revokes through the storer whenever the storer can)
		kept := false
		for _, t := range st.Post.DB.Tokens[U1] {
			for _, t0 := range st.Pre.DB.Tokens[U1] {
				if t == t0 {
					kept = true
				}
			}
		}
		if kept {
			st.Report(engine.Violation{Rule: "C06/remember-tokens-not-revoked", Attrs: fmt.Sprintf("remember-loaded=%v", st.S.Cfg.Has("remember")),
				Detail: "after a completed password change the account still has a remember token that was stored before the change"})
		}
	}
	// salting: two completed changes to the same password give different stored values
	if a, b := st.Pre.Truth.Ints["c06:changes:"+U1], st.Post.Truth.Ints["c06:changes:"+U1]; b > a {
		cur := st.Post.Truth.Flags["c06:pw:"+U1]
		if prev := st.Pre.Truth.Flags["c06:hashof:"+cur]; prev != "" && prev == st.Post.DB.Users[U1].Password {
			st.Report(engine.Violation{Rule: "C06/hash-not-renewed", Detail: "a completed change to a password that was set before left the very same stored value (not re-hashed with a fresh salt)"})
		}
	}
}

// c06State: the probe battery.
func c06State(st *engine.Step) {
	w := st.Post
	s := st.S
	// a recovery interrupted by a backend failure (evaluated on clones, the model is not involved): whatever else
	// happens, the password must not have changed while the token that authorised the change is still outstanding
	if sec := w.Truth.Newest("rtok", U1, false); sec != nil {
		for _, label := range []string{"db.DelRememberTokens", "db.Save#2", "db.Save"} {
			cl := w.Clone()
			s.FaultLabel = label
			o := flows.Exec(s, cl, flows.RecoverEnd(s, "B3", sec.Val, "Interrupt3d!pw"), "")
			s.FaultLabel = ""
			if len(o.FaultFired) == 0 {
				continue
			}
			st.Count(1, "interrupted-recovery")
			if r := cl.DB.Users[U1]; r.Password != w.DB.Users[U1].Password && r.RecoverSelector != "" {
				st.Report(engine.Violation{Rule: "C06/recover-token-reusable", Attrs: "fault=" + label,
					Detail: "a recovery interrupted by a backend failure (" + label + ") changed the password but left its token outstanding: the link can be used again"})
			}
		}
	}
	for _, pid := range []string{U1} {
		if w.Truth.Ints["c06:changes:"+pid] == 0 {
			continue
		}
		cur := w.Truth.Flags["c06:pw:"+pid]
		old := w.Truth.Flags["c06:oldpw:"+pid]
		row := w.DB.Users[pid]
		where := "after " + strings.Join(append(append([]string(nil), st.Path...), st.Act.Name), " ; ")
		_ = where
		// stored value
		switch {
		case row.Password == cur || (len(cur) >= 6 && strings.Contains(row.Password, cur)):
			st.Report(engine.Violation{Rule: "C06/password-stored-in-plaintext", Detail: "the stored password field contains the new password"})
		case !strings.HasPrefix(row.Password, "$2"):
			st.Report(engine.Violation{Rule: "C06/stored-value-not-a-bcrypt-hash", Detail: "stored: " + flows.Label(row.Password)})
		default:
			if bcrypt.CompareHashAndPassword([]byte(row.Password), []byte(cur)) != nil {
				st.Report(engine.Violation{Rule: "C06/stored-hash-does-not-verify-new-password", Detail: "after a completed change the stored hash does not verify the new password"})
			}
			for _, wrong := range []cand{{"old", old}, {"empty", ""}, {"new-minus-last-byte", cur[:len(cur)-1]}, {"case-swapped", swapCase(cur)}} {
				if wrong.val == cur || (wrong.note == "old" && old == "") {
					continue
				}
				if bcrypt.CompareHashAndPassword([]byte(row.Password), []byte(wrong.val)) == nil {
					st.Report(engine.Violation{Rule: "C06/stored-hash-verifies-another-password", Attrs: "which=" + wrong.note, Detail: "the stored hash verifies a password other than the new one: " + wrong.note})
				}
			}
		}
		st.Count(1, "probe:stored-field")
		// real logins
		cl := w.Clone()
		o := flows.Exec(s, cl, flows.Login(s, "B3", pid, cur, false), "")
		st.Count(1, "probe:login-new")
		if o.UIDAfter() != pid {
			st.Report(engine.Violation{Rule: "C06/new-password-does-not-authenticate", Attrs: "pw=" + w.Truth.Flags["c06:pwnote:"+pid], Detail: "after a completed change a real login with the new password fails"})
		}
		if old != "" && old != cur {
			cl = w.Clone()
			o = flows.Exec(s, cl, flows.Login(s, "B3", pid, old, false), "")
			st.Count(1, "probe:login-old")
			if o.UIDAfter() != "" {
				st.Report(engine.Violation{Rule: "C06/old-password-still-authenticates", Detail: "after a completed change a real login with the previous password succeeds"})
			}
		}
		// cookies issued before the change
		for _, sec := range w.Truth.Find("rm", pid) {
			if !(sec.Dead && sec.Why == "revoked") {
				continue
			}
			cl = w.Clone()
			cl.Browsers["B3"].Cookies["rm"] = sec.Val
			o = flows.Exec(s, cl, flows.Open("B3"), "")
			st.Count(1, "probe:pre-change-cookie")
			if o.UIDAfter() != "" || (o.Probe != nil && o.Probe.PID != "") {
				st.Report(engine.Violation{Rule: "C06/pre-change-cookie-still-works", Attrs: "remember-loaded=" + fmt.Sprint(s.Cfg.Has("remember")),
					Detail: fmt.Sprintf("a remember cookie issued to %s before the password change still authenticates (new password class %s)", pid, w.Truth.Flags["c06:pwnote:"+pid])})
			}
		}
		// the token that authorised the change is spent
		if sec := w.Truth.NewestUsed("rtok", pid); sec != nil {
			cl = w.Clone()
			before := cl.DB.Users[pid]
			flows.Exec(s, cl, flows.RecoverEnd(s, "B3", sec.Val, "An0ther!pass"), "")
			st.Count(1, "probe:replayed-recover-token")
			if !reflect.DeepEqual(before, cl.DB.Users[pid]) {
				st.Report(engine.Violation{Rule: "C06/recover-token-reusable", Detail: "the recovery token that authorised the change was accepted again"})
			}
		}
	}
	// the bystander's password and cookies still work
	if w.Truth.Ints["c06:changes:"+U1] > 0 {
		cl := w.Clone()
		o := flows.Exec(s, cl, flows.Login(s, "B3", U2, P2, false), "")
		st.Count(1, "probe:bystander-login")
		if o.UIDAfter() != U2 {
			st.Report(engine.Violation{Rule: "C06/other-account-affected", Attrs: "what=login", Detail: "the bystander's password stopped working"})
		}
		if sec := w.Truth.Newest("rm", U2, false); sec != nil && s.Cfg.Has("remember") {
			cl = w.Clone()
			cl.Browsers["B3"].Cookies["rm"] = sec.Val
			o = flows.Exec(s, cl, flows.Open("B3"), "")
			st.Count(1, "probe:bystander-cookie")
			if o.UIDAfter() != U2 {
				st.Report(engine.Violation{Rule: "C06/other-account-affected", Attrs: "what=cookie", Detail: "the bystander's remember cookie stopped working"})
			}
		}
	}
}

func swapCase(s string) string {
	r := []rune(s)
	for i, c := range r {
		if unicode.IsUpper(c) {
			r[i] = unicode.ToLower(c)
			return string(r)
		} else if unicode.IsLower(c) {
			r[i] = unicode.ToUpper(c)
			return string(r)
		}
	}
	return s + "x"
}

func c06Cover(st *engine.Step) []string {
	var c []string
	if a, b := st.Pre.Truth.Ints["c06:changes:"+U1], st.Post.Truth.Ints["c06:changes:"+U1]; b > a {
		kind := "update"
		if st.Obs != nil {
			kind = "recover"
		}
		c = append(c, "change-completed:"+kind)
		if len(st.Pre.Truth.Live("rm", U1)) > 0 {
			c = append(c, "change-with-outstanding-cookies")
		}
	}
	return c
}

func c06Scenarios(tier string) []engine.Scenario {
	depth := 4
	if tier == "thorough" {
		depth = 5
	}
	var out []engine.Scenario
	for _, rem := range []bool{true, false} {
		for _, login := range []bool{false, true} {
			if tier != "thorough" && !rem && login {
				continue
			}
			rem, login := rem, login
			mods := []string{"auth", "recover", "logout"}
			if rem {
				mods = []string{"auth", "recover", "remember", "logout"}
			}
			sc := engine.Scenario{
				Name: fmt.Sprintf("remember=%v,login-after=%v", rem, login), Depth: depth,
				Cfg: world.Config{Modules: mods, RecoverLoginAfter: login},
				Init: func(s *world.Stack) *world.World {
					w := world.NewWorld("B1", "B2", "B3")
					flows.SeedAcct(s, w, flows.Acct{PID: U1, Password: P1})
					flows.SeedAcct(s, w, flows.Acct{PID: U2, Password: P2})
					w.Truth.Flags["c06:pw:"+U1] = P1
					w.Truth.Flags["c06:hashof:"+P1] = w.DB.Users[U1].Password
					if !rem {
						// the remember module is not loaded in this process, but the shared storage holds tokens
						// (issued by another service of the same deployment): a password change revokes them all the same
						w.DB.Tokens[U1] = []string{"dG9rZW4taXNzdWVkLWVsc2V3aGVyZQ=="}
					}
					return w
				},
				Model: c06Model, Monitor: c06Monitor, State: c06State, Cover: c06Cover,
			}
			sc.Actions = func(s *world.Stack, w *world.World) []engine.Action {
				var a []engine.Action
				cur := w.Truth.Flags["c06:pw:"+U1]
				for _, b := range bothBrowsers {
					a = append(a, flows.A(fmt.Sprintf("login(%s,u1,pw:cur,rm)", b), func(s *world.Stack, _ *world.World) world.Req { return flows.Login(s, b, U1, cur, true) }, ""))
					a = append(a, flows.Restart(b))
				}
				a = append(a, flows.A("login(B2,u2,pw:cur,rm)", func(s *world.Stack, _ *world.World) world.Req { return flows.Login(s, "B2", U2, P2, true) }, ""))
				a = append(a, flows.A("recover-start(B1,u1)", func(s *world.Stack, _ *world.World) world.Req { return flows.RecoverStart(s, "B1", U1) }, U1))
				for _, np := range c06NewPasswords {
					if sec := w.Truth.Newest("rtok", U1, false); sec != nil {
						tok := sec.Val
						for _, b := range bothBrowsers {
							if b == "B2" && np.note != "last-byte-differs" {
								continue // from the other browser (possibly logged in as the bystander): one password class
							}
							a = append(a, flows.A(fmt.Sprintf("recover-end(%s,rtok:live,new=%s)", b, np.note), func(s *world.Stack, w *world.World) world.Req {
								w.Truth.Flags["c06:pwnote:"+U1] = np.note
								r := flows.RecoverEnd(s, b, tok, np.val)
								r.Tag.Note = np.note
								return r
							}, ""))
						}
					}
					a = append(a, c06UpdatePassword(U1, np))
				}
				return a
			}
			out = append(out, engine.Sharded(sc, 4)...)
		}
	}
	return out
}

func init() {
	engine.Register(&engine.Property{
		ID: "C06", Level: "model_checking",
		Rule: "E1 over cookie-holder subsets x {recover-end, UpdatePassword} x new-password classes (equal, last-byte, case, non-ASCII, 72 and 73 bytes, one char); probe battery on clones of every distinct state after a completed change (real logins, real cookie requests, stored-field inspection, token replay, bystander); classes = change kinds and probe kinds",
		Units: func(tier string) []engine.Unit {
			scs := c06Scenarios(tier)
			return e1Units(append(scs, configVariants(scs[:1], tier, "err500", "nil-state", "json", "app-recover-hook")...))
		},
		Need:        []string{"change-completed:recover", "change-completed:update", "change-with-outstanding-cookies", "probe:pre-change-cookie", "probe:login-old", "probe:replayed-recover-token"},
		Assumptions: []string{"bcrypt's 72-byte input limit is a property of the hash: 'another password' always differs within the first 72 bytes", "bounded depth, 2 accounts, 3 browsers"},
	})
}
