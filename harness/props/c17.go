package props

import (
	"fmt"
	"net/url"
	"strings"
	"time"

	"github.com/volatiletech/authboss/v3"
	"verif/engine"
	"verif/flows"
	"verif/world"
)

// C17 — secrets are never stored or logged in recoverable form. E1 over an
// all-modules scenario; after every transition every plaintext the oracle
// knows (passwords typed, OTPs and recovery codes shown, remember cookie
// values, mailed tokens) is searched for in every stored field and in every
// log line of the transition; token mails must go to the owner only.

const c17Secondary = "u1-backup@x.io"

type c17Secret struct{ kind, val string }

func c17Secrets(w *world.World) []c17Secret {
	var out []c17Secret
	for _, s := range w.Truth.Secrets {
		switch s.Kind {
		case "otp", "rc", "rm", "rtok", "ctok", "vtok":
			out = append(out, c17Secret{s.Kind, s.Val})
		}
	}
	for k := range w.Truth.Flags {
		if strings.HasPrefix(k, "c17:pw:") {
			out = append(out, c17Secret{"password", strings.TrimPrefix(k, "c17:pw:")})
		}
	}
	return out
}

func c17Model(st *engine.Step) {
	o := st.Obs
	if o == nil {
		return
	}
	t := st.Post.Truth
	switch o.Req.Tag.Kind {
	case "login", "register":
		if p := o.Req.Tag.Secret; len(p) >= 6 {
			t.Flags["c17:pw:"+p] = "1"
		}
	case "recover_end":
		if p := o.Req.Tag.Code; len(p) >= 6 {
			t.Flags["c17:pw:"+p] = "1"
		}
	}
}

func rowFields(r world.Row) map[string]string {
	m := map[string]string{"password": r.Password, "confirm_selector": r.ConfirmSelector, "confirm_verifier": r.ConfirmVerifier,
		"recover_selector": r.RecoverSelector, "recover_verifier": r.RecoverVerifier, "otps": r.OTPs, "totp_last_code": r.TOTPLastCode,
		"recovery_codes": r.RecoveryCodes, "oauth2_access_token": r.OAuth2AccessToken, "email": r.Email, "pid": r.PID}
	for k, v := range r.Arbitrary {
		m["arbitrary."+k] = v
	}
	return m
}

func c17Monitor(st *engine.Step) {
	post := st.Post
	secrets := c17Secrets(post)
	// the transition's own credentials count too (they are registered by the model for later steps)
	for _, sec := range secrets {
		if len(sec.val) < 6 {
			continue
		}
		storedKinds := map[string]bool{"password": true, "otp": true, "rc": true, "rm": true, "rtok": true, "ctok": true}
		if storedKinds[sec.kind] {
			for pid, r := range post.DB.Users {
				for f, v := range rowFields(r) {
					if strings.Contains(v, sec.val) {
						st.Report(engine.Violation{Rule: "C17/plaintext-in-storage", Attrs: "secret=" + sec.kind + ",field=" + f,
							Detail: fmt.Sprintf("the %s %s is a substring of the stored field %s of %s", sec.kind, flows.Label(sec.val), f, pid)})
					}
				}
			}
			for pid, l := range post.DB.Tokens {
				for _, tok := range l {
					if strings.Contains(tok, sec.val) {
						st.Report(engine.Violation{Rule: "C17/plaintext-in-storage", Attrs: "secret=" + sec.kind + ",field=remember-token-table",
							Detail: fmt.Sprintf("the %s %s is stored verbatim in the remember token table of %s", sec.kind, flows.Label(sec.val), pid)})
					}
				}
			}
		}
		for _, line := range post.Log {
			if containsAnySpelling(line, sec.val) {
				st.Report(engine.Violation{Rule: "C17/secret-in-log", Attrs: "secret=" + sec.kind + ",request=" + kindOf(st),
					Detail: fmt.Sprintf("a log line written during %s contains the %s %s: %s", st.Act.Name, sec.kind, flows.Label(sec.val), trunc(strings.TrimSpace(line), 200))})
			}
		}
	}
	// the credential presented in this very request must not be logged either
	if o := st.Obs; o != nil {
		for _, v := range []string{o.Req.Tag.Secret, o.Req.Tag.Recovery} {
			if len(v) < 8 || o.Req.Tag.Kind == "sms_setup" {
				continue
			}
			for _, line := range post.Log {
				if strings.Contains(line, v) {
					st.Report(engine.Violation{Rule: "C17/secret-in-log", Attrs: "secret=presented-credential,request=" + o.Req.Tag.Kind,
						Detail: fmt.Sprintf("a log line written during %s contains the credential presented in that request (%s): %s", st.Act.Name, o.Req.Tag.Note, trunc(strings.TrimSpace(line), 200))})
				}
			}
		}
		// a mailed token never shows up in a response, unless the request itself presented it
		for _, sec := range secrets {
			if sec.kind != "rtok" && sec.kind != "ctok" && sec.kind != "vtok" {
				continue
			}
			carried := containsAnySpelling(o.Req.Path, sec.val) || containsAnySpelling(o.Req.RawBody, sec.val)
			for _, v := range o.Req.Form {
				if containsAnySpelling(v, sec.val) {
					carried = true
				}
			}
			if !carried && (containsAnySpelling(o.Body, sec.val) || containsAnySpelling(o.Location, sec.val)) {
				st.Report(engine.Violation{Rule: "C17/mailed-token-in-response", Attrs: "secret=" + sec.kind + ",request=" + o.Req.Tag.Kind,
					Detail: fmt.Sprintf("the response to %s (browser %s) contains the mailed %s %s, which that request did not present: %s", st.Act.Name, o.Req.Browser, sec.kind, flows.Label(sec.val), trunc(o.Body, 200))})
			}
		}
		// mailed tokens only go to the owning account
		for _, m := range post.Mails {
			kind, tok, ok := world.MailToken(m)
			if !ok {
				continue
			}
			owner := ""
			if sec := post.Truth.ByVal(kind, tok); sec != nil {
				owner = sec.Owner
			}
			allowed := map[string]bool{}
			if r, ok := post.DB.Users[owner]; ok {
				allowed[r.Email] = true
				for _, e := range r.SecondaryEmails {
					allowed[e] = true
				}
			}
			for _, rcpt := range append(append(append([]string(nil), m.To...), m.Cc...), m.Bcc...) {
				if !allowed[rcpt] {
					st.Report(engine.Violation{Rule: "C17/token-mailed-to-third-party", Attrs: "kind=" + kind,
						Detail: fmt.Sprintf("a %s for %s was mailed to %q (allowed: the account's address and declared secondary addresses)", kind, owner, rcpt)})
				}
			}
		}
	}
}

// containsAnySpelling looks for the value itself, its URL-encoded spelling and
// its spelling without base64 padding (how a token appears inside a logged URL).
func containsAnySpelling(hay, v string) bool {
	if strings.Contains(hay, v) {
		return true
	}
	if e := url.QueryEscape(v); e != v && strings.Contains(hay, e) {
		return true
	}
	if t := strings.TrimRight(v, "="); t != v && len(t) >= 16 && strings.Contains(hay, t) {
		return true
	}
	return false
}

func kindOf(st *engine.Step) string {
	if st.Obs != nil {
		return st.Obs.Req.Tag.Kind
	}
	return "env"
}

func c17Cover(st *engine.Step) []string {
	var c []string
	if st.Obs != nil {
		c = append(c, "request:"+st.Obs.Req.Tag.Kind)
		for _, m := range st.Post.Mails {
			if k, _, ok := world.MailToken(m); ok {
				if m.Failed {
					c = append(c, "mail-failed:"+k)
				} else {
					c = append(c, "mail:"+k)
				}
			}
		}
	}
	for _, s := range c17Secrets(st.Post) {
		c = append(c, "known-secret:"+s.kind)
	}
	return c
}

func c17Scenarios(tier string) []engine.Scenario {
	depth := 4
	if tier == "thorough" {
		depth = 5
	}
	var out []engine.Scenario
	for _, js := range []bool{false, true} {
		sc := engine.Scenario{
			Name: fmt.Sprintf("all-modules,json=%v", js), Depth: depth,
			Cfg: world.Config{Modules: []string{"auth", "otp", "remember", "oauth2", "recover", "register", "confirm", "logout", "totp2fa", "sms2fa", "recovery"}, JSON: js, RecoverLoginAfter: true, EmailAuthRequired: true, SharedLayout: true, OnUnauthed: authboss.RespondRedirect, OneTimeUser: true},
			Init: func(s *world.Stack) *world.World {
				w := world.NewWorld("B1", "B2")
				w.Layout = map[string]interface{}{"site_name": "verif"}
				flows.SeedAcct(s, w, flows.Acct{PID: U1, Password: P1, Secondary: []string{c17Secondary}})
				flows.SeedAcct(s, w, flows.Acct{PID: U2, Password: P2, TOTPSecret: flows.TOTPSecrets[1], RecoveryCodes: []string{"ddddd-44444", "eeeee-55555"}})
				w.Truth.Flags["c17:pw:"+P1], w.Truth.Flags["c17:pw:"+P2] = "1", "1"
				// B1 is logged in as U1 with a remember cookie (real requests)
				flows.Exec(s, w, flows.Login(s, "B1", U1, P1, true), "")
				return w
			},
			Model: c17Model, Monitor: c17Monitor, Cover: c17Cover,
		}
		sc.Actions = func(s *world.Stack, w *world.World) []engine.Action {
			var a []engine.Action
			b := "B1"
			// passwords: right, wrong with the right one as a prefix
			for _, c := range []cand{{"pw:cur", P1}, {"pw:cur+suffix", P1 + "x"}} {
				for _, rm := range []bool{false, true} {
					a = append(a, flows.A(fmt.Sprintf("login(B1,u1,%s,rm=%v)", c.note, rm), func(s *world.Stack, _ *world.World) world.Req {
						r := flows.Login(s, b, U1, c.val, rm)
						r.Tag.Note = c.note
						return r
					}, ""))
				}
			}
			if s.Cfg.JSON {
				// a client that sends the remember flag as a JSON boolean (the reader wants strings)
				a = append(a, flows.A("login(B1,u1,pw:cur,rm=json-bool)", func(s *world.Stack, _ *world.World) world.Req {
					r := flows.Login(s, b, U1, P1, false)
					r.Form, r.RawBody = nil, `{"email":"`+U1+`","password":"`+P1+`","rm":true}`
					r.Tag.Note = "pw:cur,json-bool"
					return r
				}, ""))
				// syntactically broken JSON right next to the secret (a trailing comma; a body cut off mid-way)
				for _, bb := range []cand{{"json-trailing-comma", `{"email":"` + U1 + `","password":"` + P1 + `",}`}, {"json-truncated", `{"email":"` + U1 + `","password":"` + P1}} {
					a = append(a, flows.A("login(B1,u1,pw:cur,"+bb.note+")", func(s *world.Stack, _ *world.World) world.Req {
						r := flows.Login(s, b, U1, P1, false)
						r.Form, r.RawBody = nil, bb.val
						r.Tag.Note = "pw:cur," + bb.note
						return r
					}, ""))
				}
				a = append(a, flows.A("register(B2,u3,json-number)", func(s *world.Stack, _ *world.World) world.Req {
					r := flows.Register(s, "B2", map[string]string{"email": U3, "password": P3})
					r.Form, r.RawBody = nil, `{"email":"`+U3+`","password":"`+P3+`","confirm_password":"`+P3+`","age":42}`
					return r
				}, ""))
			}
			a = append(a, flows.A("login(B2,u2,pw:cur)", func(s *world.Stack, _ *world.World) world.Req { return flows.Login(s, "B2", U2, P2, false) }, ""))
			a = append(a, twofaValidateActs(s, w, "B2", []string{U1, U2}, []string{N1}, false)...)
			if w.Browsers["B2"].Session["totp_pending"] == U2 {
				// a recovery code typed into the box for the 6-digit code
				a = append(a, flows.A("totp-validate(B2,rc-in-code-field)", func(s *world.Stack, _ *world.World) world.Req {
					r := flows.TOTPValidate(s, "B2", "ddddd-44444", "")
					r.Tag.Note = "rc-in-code-field"
					return r
				}, ""))
			}
			a = append(a, simple("otp-add(B1)", func(s *world.Stack) world.Req { return flows.OTPAdd(s, b) }))
			if sec := w.Truth.Newest("otp", U1, false); sec != nil {
				for _, c := range []cand{{"otp:live", sec.Val}, {"otp:live+suffix", sec.Val + "0"}} {
					a = append(a, flows.A(fmt.Sprintf("otplogin(B2,u1,%s)", c.note), func(s *world.Stack, _ *world.World) world.Req {
						r := flows.OTPLogin(s, "B2", U1, c.val, false)
						r.Tag.Note = c.note
						return r
					}, ""))
				}
			}
			regU3 := func(s *world.Stack, _ *world.World) world.Req {
				return flows.Register(s, "B2", map[string]string{"email": U3, "password": P3, "confirm_password": P3})
			}
			a = append(a, flows.A("register(B2,u3)", regU3, U3))
			// the same mail-sending requests with the mailer failing: the token was generated and stored, so it stays a secret
			a = append(a, flows.AMailFault("register(B2,u3)", regU3, U3))
			a = append(a, flows.AMailRenderFault("register(B2,u3)", regU3, U3))
			for _, owner := range []string{U3, U1} {
				if sec := w.Truth.Newest("ctok", owner, false); sec != nil {
					for _, c := range []cand{{"ctok:live", sec.Val}, {"ctok:live+trailing-char", sec.Val + "."}, {"ctok:live-truncated", sec.Val[:len(sec.Val)-3]}} {
						a = append(a, flows.A(fmt.Sprintf("confirm(B2,%s(%s))", c.note, short(owner)), func(s *world.Stack, _ *world.World) world.Req {
							r := flows.Confirm(s, "B2", c.val)
							r.Tag.Note = c.note
							return r
						}, ""))
					}
				}
			}
			a = append(a, flows.A("recover-start(B2,u1)", func(s *world.Stack, _ *world.World) world.Req { return flows.RecoverStart(s, "B2", U1) }, U1))
			a = append(a, flows.AMailFault("recover-start(B2,u1)", func(s *world.Stack, _ *world.World) world.Req { return flows.RecoverStart(s, "B2", U1) }, U1))
			a = append(a, flows.AMailRenderFault("recover-start(B2,u1)", func(s *world.Stack, _ *world.World) world.Req { return flows.RecoverStart(s, "B2", U1) }, U1))
			if sec := w.Truth.Newest("rtok", U1, false); sec != nil {
				for _, c := range []cand{{"rtok:live", sec.Val}, {"rtok:live+trailing-char", sec.Val + "."}, {"rtok:live-truncated", sec.Val[:len(sec.Val)-3]}} {
					a = append(a, flows.A(fmt.Sprintf("recover-end(B2,%s)", c.note), func(s *world.Stack, _ *world.World) world.Req {
						r := flows.RecoverEnd(s, "B2", c.val, "Br4nd!newpass")
						r.Tag.Note = c.note
						return r
					}, ""))
				}
			}
			// 2FA enrolment for U1 (e-mail authorisation required)
			a = append(a, simple("verify-start(B1,totp)", func(s *world.Stack) world.Req { return flows.VerifyStart(s, b, "totp") }))
			a = append(a, flows.AMailFault("verify-start(B1,totp)", func(s *world.Stack, _ *world.World) world.Req { return flows.VerifyStart(s, b, "totp") }, ""))
			if sec := w.Truth.Newest("vtok", U1, false); sec != nil {
				for _, c := range []cand{{"vtok:live", sec.Val}, {"vtok:live+trailing-char", sec.Val + "."}} {
					a = append(a, flows.A(fmt.Sprintf("verify-end(B1,totp,%s)", c.note), func(s *world.Stack, _ *world.World) world.Req {
						r := flows.VerifyEnd(s, b, "totp", c.val)
						r.Tag.Note = c.note
						return r
					}, ""))
				}
			}
			// the mailed link opened in the other browser (no session there, or somebody else's)
			if sec := w.Truth.Newest("vtok", U1, false); sec != nil {
				v := sec.Val
				a = append(a, flows.A("verify-end(B2,totp,vtok:live)", func(s *world.Stack, _ *world.World) world.Req {
					r := flows.VerifyEnd(s, "B2", "totp", v)
					r.Tag.Note = "vtok:live"
					return r
				}, ""))
			}
			a = append(a, simple("totp-setup(B1)", func(s *world.Stack) world.Req { return flows.TOTPSetup(s, b) }))
			if sec := w.Browsers[b].Session["totp_secret"]; sec != "" {
				code := flows.TOTPCode(w, sec, 0)
				a = append(a, flows.A("totp-confirm(B1,totp:for-session-secret)", func(s *world.Stack, _ *world.World) world.Req { return flows.TOTPConfirm(s, b, code) }, ""))
			}
			a = append(a, simple("sms-setup(B1,N1)", func(s *world.Stack) world.Req { return flows.SMSSetup(s, b, N1) }))
			if c := w.Browsers[b].Session["sms_secret"]; c != "" {
				a = append(a, flows.A("sms-confirm(B1,session-code)", func(s *world.Stack, _ *world.World) world.Req { return flows.SMSConfirm(s, b, c) }, ""))
			}
			a = append(a, simple("regen(B1)", func(s *world.Stack) world.Req { return flows.Regen(s, b) }))
			a = append(a, simple("oauth-start(B2,google,rm)", func(s *world.Stack) world.Req { return flows.OAuthStart(s, "B2", "google", "rm=true") }))
			if stt := w.Browsers["B2"].Session[authboss.SessionOAuth2State]; stt != "" {
				a = append(a, flows.A("oauth-cb(B2,google,state:own,code=c:7)", func(s *world.Stack, _ *world.World) world.Req {
					return flows.OAuthCallback(s, "B2", "google", stt, "c:7", "")
				}, ""))
			}
			a = append(a, flows.Restart(b))
			a = append(a, simple("recover-page(B2)", func(s *world.Stack) world.Req {
				return world.Req{Browser: "B2", Method: "GET", Path: "/auth/recover", ForceForm: true, Tag: world.Tag{Kind: "page"}}
			}))
			a = append(a, simple("login-page(B2)", func(s *world.Stack) world.Req {
				return world.Req{Browser: "B2", Method: "GET", Path: "/auth/login", ForceForm: true, Tag: world.Tag{Kind: "page"}}
			}))
			a = append(a, simple("open(B1)", func(s *world.Stack) world.Req { return flows.Open(b) }))
			a = append(a, simple("logout(B1)", func(s *world.Stack) world.Req { return flows.Logout(s, b) }))
			a = append(a, simple("logout(B2)", func(s *world.Stack) world.Req { return flows.Logout(s, "B2") }))
			a = append(a, flows.AdminStartConfirm(U1))
			return a
		}
		out = append(out, engine.Sharded(sc, 8)...)
	}
	return out
}

var _ = time.Second

func init() {
	engine.Register(&engine.Property{
		ID: "C17", Level: "model_checking",
		Rule: "E1 over the union of the successful and failing steps of every flow (all modules, e-mail authorisation on, form and JSON) incl. near-miss inputs a user really produces (mailed token with a trailing character or truncated, wrong password with the right one as a prefix); after every transition every known plaintext is searched for in all stored fields, the remember table and the transition's log lines, token mails are checked against the owner's addresses, and every response body / location is searched for mailed tokens the request did not itself present; classes = request kinds, mail kinds and secret kinds in play",
		Units: func(tier string) []engine.Unit {
			scs := c17Scenarios(tier)
			return e1Units(append(scs, configVariants(scs[:1], tier, "err500", "nomount")...))
		},
		Need: []string{"mail-failed:rtok", "mail-failed:ctok", "mail-failed:vtok", "known-secret:password", "known-secret:otp", "known-secret:rc", "known-secret:rm", "known-secret:rtok", "known-secret:ctok", "known-secret:vtok",
			"mail:rtok", "mail:ctok", "mail:vtok", "request:confirm", "request:recover_end", "request:otplogin"},
		Assumptions: []string{"TOTP secrets and the session-held SMS / e-mail-verify values are outside the statement and are not scanned", "of the backends only the mailer is made to fail in this alphabet (register, recover start, 2FA e-mail verification with Mailer.Send returning an error, or the mail template failing to render); malformed percent-encoding is not in it (DESIGN.md 7.11)", "responses are scanned for mailed tokens only (a token may appear only in the response to a request that presented it); passwords and codes in responses are out of scope by the statement", "the application injects one layout data map into every request context (CTXKeyData)"},
	})
}
