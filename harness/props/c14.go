package props

import (
	"fmt"
	"sort"
	"strings"
	"time"

	"github.com/volatiletech/authboss/v3"
	"verif/engine"
	"verif/flows"
	"verif/world"
)

// C14 — OAuth2 callbacks need the session's own unused state and bind the
// named identity. E1 over start / callback interleavings across two browsers
// and two providers with state / code / error alphabets; E2 over the PID codec.

func c14Model(st *engine.Step) {
	o := st.Obs
	if o == nil || o.Req.Tag.Kind != "oauth_start" {
		return
	}
	if old := o.SessBefore[authboss.SessionOAuth2State]; old != "" && old != o.SessAfter[authboss.SessionOAuth2State] {
		st.Post.Truth.Flags["oauth-prev-state:"+o.Req.Browser] = old
	}
}

func c14Monitor(st *engine.Step) {
	o := st.Obs
	if o == nil || o.Req.Tag.Kind != "oauth_cb" {
		return
	}
	tag := o.Req.Tag
	own := o.SessBefore[authboss.SessionOAuth2State]
	match := own != "" && tag.State == own
	u, u2 := o.UIDBefore(), o.UIDAfter()
	loggedIn := u2 != "" && u2 != u
	// a remember cookie may also authenticate on this request; none is in this scenario's alphabet for callbacks
	if loggedIn {
		switch {
		case !match:
			st.Report(engine.Violation{Rule: "C14/login-without-own-state", Attrs: "state=" + tag.Note,
				Detail: fmt.Sprintf("callback with state class %s (session holds %q) logged the browser in as %s", tag.Note, own, u2)})
		case tag.Err != "":
			st.Report(engine.Violation{Rule: "C14/login-on-provider-error", Detail: "a callback reporting a provider error logged the browser in as " + u2})
		case !strings.HasPrefix(tag.Code, "c:"):
			st.Report(engine.Violation{Rule: "C14/login-with-invalid-code", Detail: "a callback whose code the provider rejects logged the browser in as " + u2})
		default:
			uid := strings.TrimPrefix(tag.Code, "c:")
			if want := authboss.MakeOAuth2PID(tag.Provider, uid); u2 != want {
				st.Report(engine.Violation{Rule: "C14/wrong-identity", Detail: fmt.Sprintf("provider %s reported uid %q but the session identifies %q (want %q)", tag.Provider, uid, u2, want)})
			}
			if p, x, err := authboss.ParseOAuth2PID(u2); err != nil || p != tag.Provider || x != uid {
				st.Report(engine.Violation{Rule: "C14/pid-does-not-parse-back", Attrs: "uid-class=" + uidClass(uid),
					Detail: fmt.Sprintf("the session pid %q does not parse back to (%q,%q): got (%q,%q,%v)", u2, tag.Provider, uid, p, x, err)})
			}
		}
	}
	if !match || tag.Err != "" {
		if !dbEqual(st.Pre.DB, st.Post.DB) {
			st.Report(engine.Violation{Rule: "C14/unmatched-callback-touched-users", Attrs: "state=" + tag.Note,
				Detail: "a callback that does not carry the session's own state (or reports an error) created or updated a user row"})
		}
	}
	if match && o.Wrote && o.SessAfter[authboss.SessionOAuth2State] == own {
		st.Report(engine.Violation{Rule: "C14/state-not-spent", Attrs: fmt.Sprintf("error=%v", tag.Err != ""),
			Detail: "a callback that matched the session's state was answered, but the state is still in the session: the callback can be replayed"})
	}
}

func uidClass(uid string) string {
	switch {
	case strings.Contains(uid, ";;"):
		return "contains-double-semicolon"
	case strings.Contains(uid, ";"):
		return "contains-semicolon"
	case strings.ContainsAny(uid, "+%"):
		return "url-special"
	case strings.ToLower(uid) != uid:
		return "mixed-case"
	}
	return "plain"
}

func c14Cover(st *engine.Step) []string {
	o := st.Obs
	if o == nil {
		return nil
	}
	tag := o.Req.Tag
	if tag.Kind != "oauth_cb" {
		return nil
	}
	if u2 := o.UIDAfter(); u2 != "" && u2 != o.UIDBefore() {
		return []string{"login:" + uidClass(strings.TrimPrefix(tag.Code, "c:"))}
	}
	if tag.Err != "" {
		return []string{"refused:provider-error"}
	}
	return []string{"refused:" + tag.Note}
}

func c14Scenarios(tier string) []engine.Scenario {
	depth := 4
	if tier == "thorough" {
		depth = 5
	}
	codes := []string{"c:7", "c:x;;y", "c:Xy", "c:a+b%2F", "bad"}
	if tier == "thorough" {
		codes = []string{"c:7", "c:x;;y", "c:Xy", "c:xY", "c:a+b%2F", "c:;z", "c:a;b", "bad"}
	}
	sc := engine.Scenario{
		Name: "oauth2", Depth: depth,
		Cfg: world.Config{Modules: []string{"auth", "oauth2", "remember", "logout"}},
		Init: func(s *world.Stack) *world.World {
			w := world.NewWorld("B1", "B2")
			flows.SeedAcct(s, w, flows.Acct{PID: U1, Password: P1})
			return w
		},
		Model: c14Model, Monitor: c14Monitor, Cover: c14Cover,
	}
	sc.Actions = func(s *world.Stack, w *world.World) []engine.Action {
		var a []engine.Action
		for _, b := range bothBrowsers {
			provs := []string{"google"}
			if b == "B1" {
				provs = []string{"google", "fb"}
			}
			// (the third start request passes along parameters named like the fields the provider reports)
			a = append(a, oauthActs(w, b, provs, []string{"", "rm=true", "uid=9&email=victim%40provider.test&provider=fb"}, codes)...)
			a = append(a, simple("logout("+b+")", func(s *world.Stack) world.Req { return flows.Logout(s, b) }))
		}
		return a
	}
	out := engine.Sharded(sc, 6)
	// with modules that can veto an OAuth2 login: a vetoed callback was answered, so it spent the state
	pid := authboss.MakeOAuth2PID("google", "7")
	veto := engine.Scenario{
		Name: "oauth2+lock+confirm", Depth: depth,
		Cfg: world.Config{Modules: []string{"auth", "oauth2", "lock", "confirm", "logout"}},
		Init: func(s *world.Stack) *world.World {
			w := world.NewWorld("B1", "B2")
			flows.SeedAcct(s, w, flows.Acct{PID: U1, Password: P1})
			w.DB.Users[pid] = world.Row{PID: pid, Email: "o@provider.test", OAuth2UID: "7", OAuth2Provider: "google", Confirmed: true}
			return w
		},
		Model: c14Model, Monitor: c14Monitor, Cover: c14Cover,
		Actions: func(s *world.Stack, w *world.World) []engine.Action {
			var a []engine.Action
			a = append(a, oauthActs(w, "B1", []string{"google"}, []string{""}, []string{"c:7", "bad"})...)
			a = append(a, flows.AdminLock(pid), flows.AdminUnlock(pid), flows.AdminStartConfirm(pid))
			a = append(a, simple("logout(B1)", func(s *world.Stack) world.Req { return flows.Logout(s, "B1") }))
			return a
		},
	}
	return append(out, veto)
}

// c14Codec: injectivity and round trip of MakeOAuth2PID / ParseOAuth2PID.
func c14Codec(dl time.Time) engine.UnitResult {
	res := engine.UnitResult{Exhaustive: true, Distinct: map[string]bool{}, Cover: map[string]int{}}
	t0 := time.Now()
	var provs, uids []string
	var gen func(alpha []string, max int, cur string, out *[]string)
	gen = func(alpha []string, max int, cur string, out *[]string) {
		*out = append(*out, cur)
		if len(cur) == max {
			return
		}
		for _, c := range alpha {
			gen(alpha, max, cur+c, out)
		}
	}
	gen([]string{"a", "b"}, 3, "", &provs)
	gen([]string{"a", "A", ";", ":", "+", "%", "\xe9", "\xe8"}, 4, "", &uids)
	// uids that spell an account identifier of their own provider ("oauth2;;a;;b" reported by provider a)
	for _, p := range []string{"a", "b"} {
		for _, u := range []string{"a", "A", ";", "a;"} {
			uids = append(uids, "oauth2;;"+p+";;"+u)
		}
	}
	type pair struct{ p, u string }
	pids := map[string]pair{}
	for _, p := range provs {
		if p == "" {
			continue
		}
		for _, u := range uids {
			res.Evaluations++
			pid := authboss.MakeOAuth2PID(p, u)
			if prev, ok := pids[pid]; ok && (prev.p != p || prev.u != u) && len(res.Violations) < 10 {
				res.Violations = append(res.Violations, engine.Violation{Rule: "C14/pid-collision", Detail: fmt.Sprintf("(%q,%q) and (%q,%q) map to the same account identifier %q", prev.p, prev.u, p, u, pid), Scen: "codec", Path: []string{pid}})
			}
			pids[pid] = pair{p, u}
			gp, gu, err := authboss.ParseOAuth2PID(pid)
			cl := uidClass(u)
			res.Distinct["roundtrip:"+cl] = true
			res.Cover["roundtrip:"+cl]++
			if (err != nil || gp != p || gu != u) && len(res.Violations) < 10 {
				res.Violations = append(res.Violations, engine.Violation{Rule: "C14/pid-does-not-parse-back", Attrs: "uid-class=" + cl,
					Detail: fmt.Sprintf("ParseOAuth2PID(MakeOAuth2PID(%q,%q)) = (%q,%q,%v)", p, u, gp, gu, err), Scen: "codec", Path: []string{pid}})
			}
		}
	}
	keys := make([]string, 0, len(pids))
	for k := range pids {
		keys = append(keys, k)
	}
	sort.Strings(keys)
	res.Samples = []interface{}{keys[len(keys)/2]}
	res.WallS = time.Since(t0).Seconds()
	return res
}

func init() {
	engine.Register(&engine.Property{
		ID: "C14", Level: "model_checking",
		Rule: "E1 over start / callback requests of two browsers and two providers with state in {own, other browser's, previous, empty, garbage} x code in {plain uid, uid with ';;', with ';', mixed-case uids, invalid} x provider error; plus the complete PID codec product (provider strings <= 3 over {a,b} x uid strings <= 4 over {a, A, ;, :, +, %, and the invalid UTF-8 bytes 0xE9, 0xE8}); and the shipped Google / Facebook detail decoders over 13 provider ids sent as JSON strings and as bare numbers; classes = login / refusal kinds, codec uid classes, decoder outcomes",
		Units: func(tier string) []engine.Unit {
			scs := c14Scenarios(tier)
			us := e1Units(append(scs, configVariants(scs, tier, "err500", "nil-state", "nomount")...))
			us = append(us, engine.Unit{Name: "codec", Run: c14Codec})
			us = append(us, engine.Unit{Name: "provider-decoders", Run: c14Decoders})
			return us
		},
		Need:        []string{"decoder:decoded", "login:plain", "login:mixed-case", "roundtrip:mixed-case", "login:contains-double-semicolon", "refused:provider-error", "refused:state:other-browser", "refused:state:previous", "roundtrip:contains-double-semicolon"},
		Assumptions: []string{"when a callback handler returns an error under the silent default error handler nothing is written, so 'state spent' is only asserted for answered callbacks", "the state is not bound to the provider it was started for (the statement does not require it)"},
	})
}
