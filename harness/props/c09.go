package props

import (
	"fmt"
	"reflect"
	"time"

	"github.com/volatiletech/authboss/v3"
	"verif/engine"
	"verif/flows"
	"verif/world"
)

// C09 — an idle session expires and is fully hidden from everything
// downstream. E1 over login / request sequences with gaps on either side of
// ExpireAfter; the oracle is a reference idle clock (time of last activity)
// advanced on the same history.

const c09Last = "c09:last:B1"

func c09Model(ea time.Duration) func(st *engine.Step) {
	return func(st *engine.Step) {
		o := st.Obs
		if o == nil {
			return
		}
		t := st.Post.Truth
		now := st.Pre.Now
		u, u2 := o.UIDBefore(), o.UIDAfter()
		if !o.Wrote {
			// the handler returned an error and the silent default error handler wrote nothing: the
			// queued session changes (refresh or expiry) never reached the client (DESIGN 7.6).
			// The reference clock is unknown until the next login.
			delete(t.Times, c09Last)
			delete(t.Flags, "c09:await-first")
			return
		}
		refreshed := false // the middleware refreshed a live stamp in this request
		if u != "" {
			if last, ok := st.Pre.Truth.Times[c09Last]; ok {
				gap := now.Sub(last)
				switch {
				case gap > ea:
					delete(t.Times, c09Last)
				case gap < ea:
					refreshed = true
					t.Times[c09Last] = now
				default:
					// exactly ExpireAfter: unspecified either way. The reference clock is unknown from here
					// on (no assertions) until the next login restarts it.
					delete(t.Times, c09Last)
				}
			}
		}
		if st.Pre.Truth.Flags["c09:await-first"] != "" && u != "" {
			// first request after a login that does not fire EventAuth: the clock starts here
			t.Times[c09Last] = now
			delete(t.Flags, "c09:await-first")
			refreshed = true
		}
		if u2 != "" && u2 != u {
			// a login completed in this request: the idle clock starts now ...
			t.Times[c09Last] = now
			delete(t.Flags, "c09:await-first")
			if o.Req.Tag.Kind == "register" && !refreshed {
				// ... except for logins that do not fire EventAuth (registration, OAuth2): the
				// library stamps those at the first request through the middleware (DESIGN 7.13)
				delete(t.Times, c09Last)
				if u == "" {
					t.Flags["c09:await-first"] = "1"
				}
				// (a registration sent from a session that already had a user inherits whatever stamp that
				// session carried - one the reference clock does not know here: no assertion until the next login)
			}
		}
		if o.Req.Tag.Kind == "logout" || u2 == "" {
			delete(t.Times, c09Last)
			delete(t.Flags, "c09:await-first")
		}
	}
}

// c09Differential: "fully hidden from everything downstream" as a differential oracle with no
// hand-written expectation - whatever the request is (a page, a login, a registration, a logout),
// sending it from an expired session must have exactly the outcome of sending it from a session
// that holds nothing but the whitelisted keys.
func c09Differential(st *engine.Step, gap, ea time.Duration) {
	o := st.Obs
	wl := map[string]bool{}
	for _, k := range st.S.Cfg.Whitelist {
		wl[k] = true
	}
	cl := st.Pre.Clone()
	ses := cl.Browsers[o.Req.Browser].Session
	for k := range ses {
		if !wl[k] {
			delete(ses, k)
		}
	}
	o2 := flows.Exec(st.S, cl, o.Req, "")
	st.Count(1, "differential:"+o.Req.Tag.Kind)
	diff := ""
	switch {
	case o.Status != o2.Status || o.Location != o2.Location || o.Body != o2.Body:
		diff = fmt.Sprintf("response %d %q vs %d %q", o.Status, o.Location, o2.Status, o2.Location)
	case !reflect.DeepEqual(o.SessAfter, o2.SessAfter):
		diff = fmt.Sprintf("session afterwards %v vs %v", keysOf(o.SessAfter), keysOf(o2.SessAfter))
		for k, v := range o2.SessAfter {
			if o.SessAfter[k] != v {
				diff += fmt.Sprintf(" (key %s: %s vs %s)", k, flows.Label(o.SessAfter[k]), flows.Label(v))
			}
		}
	case !dbEqual(st.Post.DB, cl.DB):
		diff = "the database afterwards"
	}
	if diff != "" {
		st.Report(engine.Violation{Rule: "C09/expired-session-not-hidden", Attrs: "request=" + o.Req.Tag.Kind,
			Detail: fmt.Sprintf("%s sent %s after the last activity (ExpireAfter=%s) is not answered as it is from a session holding only the whitelisted keys: %s", st.Act.Name, gap, ea, diff)})
	}
}

func c09Monitor(ea time.Duration) func(st *engine.Step) {
	return func(st *engine.Step) {
		o := st.Obs
		if o == nil || o.UIDBefore() == "" {
			return
		}
		if st.Pre.Truth.Flags["c09:await-first"] != "" && o.Req.Tag.Kind == "open" {
			// the first request of a session created by a login that does not fire EventAuth
			// (registration): nothing has been idle yet - it is served, and from here on it is stamped
			if p := o.Probe; p == nil || !p.Ran || p.PID != o.UIDBefore() || p.UserPID != o.UIDBefore() {
				st.Report(engine.Violation{Rule: "C09/live-session-not-served", Attrs: "first-request-after-registration",
					Detail: fmt.Sprintf("the first request of the session registration created for %q was not served as that user", o.UIDBefore())})
			}
			if got, want := o.SessAfter[authboss.SessionLastAction], st.Pre.Now.UTC().Format(time.RFC3339); got != want {
				st.Report(engine.Violation{Rule: "C09/deadline-not-pushed", Attrs: "first-request-after-registration", Detail: fmt.Sprintf("the first request after registration did not stamp the session: %q, want %q", got, want)})
			}
			st.Count(1, "first-request-after-registration")
		}
		last, ok := st.Pre.Truth.Times[c09Last]
		if !ok {
			return
		}
		if gap := st.Pre.Now.Sub(last); gap > ea && o.Wrote {
			c09Differential(st, gap, ea)
		}
		if o.Req.Tag.Kind != "open" {
			return
		}
		wl := map[string]bool{}
		for _, k := range st.S.Cfg.Whitelist {
			wl[k] = true
		}
		gap := st.Pre.Now.Sub(last)
		p := o.Probe
		if p == nil || !p.Ran {
			st.Report(engine.Violation{Rule: "C09/probe-did-not-run", Detail: "the open route was not served"})
			return
		}
		switch {
		case gap > ea:
			if p.PID != "" || p.UserPID != "" {
				st.Report(engine.Violation{Rule: "C09/expired-session-visible", Attrs: "what=user",
					Detail: fmt.Sprintf("a request arriving %s after the last activity (ExpireAfter=%s) was served with current user %q/%q", gap, ea, p.PID, p.UserPID)})
			}
			for k, v := range p.Session {
				if !wl[k] {
					st.Report(engine.Violation{Rule: "C09/expired-session-visible", Attrs: "what=session-value,key=" + k,
						Detail: fmt.Sprintf("a request arriving %s after the last activity (ExpireAfter=%s) could read the non-whitelisted session value %s=%s", gap, ea, k, flows.Label(v))})
				}
			}
			for k, v := range o.SessBefore {
				if wl[k] && p.Session[k] != v {
					st.Report(engine.Violation{Rule: "C09/whitelisted-value-hidden", Attrs: "key=" + k, Detail: "an expired request could not read the whitelisted session value " + k})
				}
				if wl[k] && o.SessAfter[k] != v {
					st.Report(engine.Violation{Rule: "C09/whitelisted-value-deleted", Attrs: "key=" + k, Detail: "expiry deleted the whitelisted session value " + k})
				}
			}
			for k := range o.SessAfter {
				if !wl[k] {
					st.Report(engine.Violation{Rule: "C09/expired-session-not-cleared", Attrs: "key=" + k,
						Detail: fmt.Sprintf("after an expired request (gap %s, ExpireAfter=%s) the session still holds the non-whitelisted key %s", gap, ea, k)})
				}
			}
		case gap < ea:
			if p.PID != o.UIDBefore() || p.UserPID != o.UIDBefore() {
				st.Report(engine.Violation{Rule: "C09/live-session-not-served", Attrs: fmt.Sprintf("saw-user=%v", p.PID != ""),
					Detail: fmt.Sprintf("a request arriving %s after the last activity (ExpireAfter=%s) was not served as user %q (handler saw %q/%q)", gap, ea, o.UIDBefore(), p.PID, p.UserPID)})
			}
			if got, want := o.SessAfter[authboss.SessionLastAction], st.Pre.Now.UTC().Format(time.RFC3339); got != want {
				st.Report(engine.Violation{Rule: "C09/deadline-not-pushed", Detail: fmt.Sprintf("a live request did not refresh the last-activity stamp: %q, want %q", got, want)})
			}
		}
	}
}

func c09Cover(ea time.Duration) func(st *engine.Step) []string {
	return func(st *engine.Step) []string {
		o := st.Obs
		if o == nil || o.UIDBefore() == "" {
			return nil
		}
		last, ok := st.Pre.Truth.Times[c09Last]
		if !ok {
			return nil
		}
		gap := st.Pre.Now.Sub(last)
		k := o.Req.Tag.Kind
		switch {
		case gap > ea:
			return []string{"expired:" + k}
		case gap < ea:
			return []string{"live:" + k}
		}
		return []string{"boundary:" + k}
	}
}

func c09Scenarios(tier string) []engine.Scenario {
	depth := 5
	if tier == "thorough" {
		depth = 7
	}
	var out []engine.Scenario
	eas := []time.Duration{90 * time.Second, 2 * time.Second}
	wls := [][]string{{"theme", "guid"}, nil} // ("guid" contains "uid": whitelist membership is by whole key)
	if tier == "thorough" {
		eas = []time.Duration{time.Hour, 90 * time.Second, 2 * time.Second}
		wls = [][]string{nil, {"theme", "guid"}, {"theme", "csrf"}}
	}
	for _, ea := range eas {
		for _, wl := range wls {
			sc := engine.Scenario{
				Name: fmt.Sprintf("expire=%s,whitelist=%v", ea, wl), Depth: depth, Sat: 4 * ea,
				Cfg: world.Config{Modules: []string{"expire", "auth", "register", "totp2fa", "recovery", "logout"}, ExpireAfter: ea, Whitelist: wl},
				Init: func(s *world.Stack) *world.World {
					w := world.NewWorld("B1")
					flows.SeedAcct(s, w, flows.Acct{PID: U1, Password: P1})
					flows.SeedAcct(s, w, flows.Acct{PID: U2, Password: P2, TOTPSecret: flows.TOTPSecrets[1], RecoveryCodes: []string{"ddddd-44444"}})
					return w
				},
				Model: c09Model(ea), Monitor: c09Monitor(ea), Cover: c09Cover(ea),
			}
			sc.Actions = func(s *world.Stack, w *world.World) []engine.Action {
				b := "B1"
				var a []engine.Action
				a = append(a, flows.A("login(B1,u1,pw:cur)", func(s *world.Stack, _ *world.World) world.Req { return flows.Login(s, b, U1, P1, false) }, ""))
				a = append(a, flows.A("login(B1,u2,pw:cur)", func(s *world.Stack, _ *world.World) world.Req { return flows.Login(s, b, U2, P2, false) }, ""))
				if w.Browsers[b].Session["totp_pending"] != "" {
					code := flows.TOTPCode(w, flows.TOTPSecrets[1], 0)
					a = append(a, flows.A("totp-validate(B1,totp:now)", func(s *world.Stack, _ *world.World) world.Req { return flows.TOTPValidate(s, b, code, "") }, ""))
				}
				if _, ok := w.DB.Users[U3]; !ok {
					a = append(a, flows.A("register(B1,u3)", func(s *world.Stack, _ *world.World) world.Req {
						return flows.Register(s, b, map[string]string{"email": U3, "password": P3, "confirm_password": P3})
					}, U3))
				}
				a = append(a, simple("open(B1)", func(s *world.Stack) world.Req { return flows.Open(b) }))
				a = append(a, simple("put(B1,theme)", func(s *world.Stack) world.Req { return flows.Put(b, "theme", "dark") }))
				a = append(a, simple("put(B1,cart)", func(s *world.Stack) world.Req { return flows.Put(b, "cart", "3") }))
				a = append(a, simple("logout(B1)", func(s *world.Stack) world.Req { return flows.Logout(s, b) }))
				a = append(a, waitActs(time.Second, ea-time.Second, ea+time.Second, 3*ea)...)
				return a
			}
			out = append(out, engine.Sharded(sc, 4)...)
		}
	}
	return out
}

func init() {
	engine.Register(&engine.Property{
		ID: "C09", Level: "model_checking",
		Rule: "E1 over login (password, password+TOTP) / request / app-key / logout sequences with clock advances {1s, EA-1s, EA+1s, 3EA}; reference idle clock advanced on the same history; every request from a session with a user is compared with it (what the downstream handler can read, what the response leaves in the jar), and every request from an expired session is compared with the same request sent from a session holding only the whitelisted keys (response, session, database); classes = live / expired / boundary requests by kind",
		Units: func(tier string) []engine.Unit {
			scs := c09Scenarios(tier)
			return e1Units(append(scs, configVariants(scs[:4], tier, "nil-state", "nomount", "err500", "json")...))
		},
		Need:        []string{"live:open", "expired:open", "boundary:open", "live:put", "expired:put", "differential:login", "differential:open", "first-request-after-registration"},
		Assumptions: []string{"whole-second clock (the stamp is RFC 3339 with one-second resolution)", "a gap of exactly ExpireAfter is not asserted either way", "only logins that fire EventAuth are in the alphabet (DESIGN.md 7.13)"},
	})
}
