package props

import (
	"strings"

	"verif/engine"
	"verif/world"
)

// configVariants returns copies of the scenarios (quick tier: of the first one only) under
// deployment choices an application may legitimately make and that change how
// the library's code paths compose:
//   - a client-state store that returns a nil ClientState for a browser without state,
//   - an error handler that renders a 500 page (which flushes the client-state
//     changes queued before the error; the silent default drops them),
//   - an empty Paths.Mount.
//
// The oracles are unchanged. In the thorough tier (all scenarios) and for the fault variants the depth is reduced by one.
func configVariants(scs []engine.Scenario, tier string, which ...string) []engine.Scenario {
	if tier != "thorough" {
		// quick tier: every requested variant, but only of the first scenario given
		if len(scs) == 0 {
			return nil
		}
		scs = scs[:1]
	} else if n := firstN(scs, 4); n < len(scs) {
		// thorough tier: variants of the first four scenarios given (callers slice to choose others)
		scs = scs[:n]
	}
	var out []engine.Scenario
	for _, sc := range scs {
		if sc.ShardN > 1 && sc.ShardIdx != 0 {
			continue // variants of a sharded scenario are re-sharded below
		}
		for _, v := range which {
			c := sc
			c.ShardIdx, c.ShardN = 0, 0
			base := sc.Name
			if sc.ShardN > 1 {
				base = base[:len(base)-len("#0/8")]
				if i := lastIndexByte(sc.Name, '#'); i > 0 {
					base = sc.Name[:i]
				}
			}
			c.Name = base + "+" + v
			switch v {
			case "nil-state":
				c.Cfg.NilEmptyState = true
			case "err500":
				if c.Cfg.Err500 {
					continue
				}
				c.Cfg.Err500 = true
			case "nomount":
				c.Cfg.NoMount = true
			case "preload-user":
				c.Cfg.PreloadUser = true
			case "localizer":
				c.Cfg.EmptyLocalizer = true
			case "app-recover-hook":
				c.Cfg.AppRecoverEndHook = true
			case "json":
				if c.Cfg.JSON {
					continue
				}
				c.Cfg.JSON = true
			case "faults":
				// every request that presents a valid credential also runs with a storage failure at
				// its first or its second Load / Save, or its first token-table call
				orig := sc.Actions
				c.Actions = func(s *world.Stack, w *world.World) []engine.Action {
					acts := orig(s, w)
					return append(acts, withFaults(acts, validCredentialMarkers, []string{"db.Save", "db.Load", "db.AddRememberToken", "db.Save#2", "db.Load#2"})...)
				}
			default:
				// "faults:<marker>|<marker>...": the same for the actions whose names contain one of the given markers
				if !strings.HasPrefix(v, "faults:") {
					panic("unknown variant " + v)
				}
				markers := strings.Split(strings.TrimPrefix(v, "faults:"), "|")
				c.Name = base + "+faults"
				orig := sc.Actions
				c.Actions = func(s *world.Stack, w *world.World) []engine.Action {
					acts := orig(s, w)
					return append(acts, withFaults(acts, markers, []string{"db.Save", "db.Load", "db.Save#2", "db.Load#2", "db.DelRememberTokens"})...)
				}
			}
			if c.Depth > 3 && (tier == "thorough" || strings.HasPrefix(v, "faults")) {
				c.Depth-- // thorough: keeps the tier's budget; the fault variants multiply the action menu
			}
			if sc.ShardN > 1 {
				out = append(out, engine.Sharded(c, sc.ShardN)...)
			} else {
				out = append(out, c)
			}
		}
	}
	return out
}

// withFaults returns, for every action whose name contains one of the markers (the actions that
// present a VALID credential), copies in which the first backend call with the given seam label
// fails. The monitors are unchanged: a backend failure never excuses a safety property.
func withFaults(acts []engine.Action, markers, labels []string) []engine.Action {
	var out []engine.Action
	for _, a := range acts {
		hit := false
		for _, m := range markers {
			if strings.Contains(a.Name, m) {
				hit = true
			}
		}
		if !hit || strings.Contains(a.Name, "!fault(") {
			continue
		}
		for _, l := range labels {
			a, l := a, l
			out = append(out, engine.Action{Name: a.Name + "!fault(" + l + ")", Run: func(s *world.Stack, w *world.World) *world.Obs {
				s.FaultLabel = l
				defer func() { s.FaultLabel = "" }()
				return a.Run(s, w)
			}})
		}
	}
	return out
}

var validCredentialMarkers = []string{"pw:cur", "otp:live", "totp:now", "rc:live", "rtok:live", "sms:last-to", "state:own,code=c:"}

func contains(l []string, x string) bool {
	for _, y := range l {
		if y == x {
			return true
		}
	}
	return false
}

func lastIndexByte(s string, b byte) int {
	for i := len(s) - 1; i >= 0; i-- {
		if s[i] == b {
			return i
		}
	}
	return -1
}

// from returns the scenarios starting at the one with the given name (prefix match; sharded names carry a suffix).
func from(scs []engine.Scenario, name string) []engine.Scenario {
	for i, sc := range scs {
		if strings.HasPrefix(sc.Name, name) {
			return scs[i:]
		}
	}
	panic("no scenario " + name)
}

// firstN returns the length of the prefix of scs that holds n distinct scenarios (the shards of a
// sharded scenario count as one).
func firstN(scs []engine.Scenario, n int) int {
	seen := 0
	for i, sc := range scs {
		if sc.ShardN <= 1 || sc.ShardIdx == 0 {
			seen++
			if seen > n {
				return i
			}
		}
	}
	return len(scs)
}

// only returns the scenario with the given name (all its shards, if sharded).
func only(scs []engine.Scenario, name string) []engine.Scenario {
	var out []engine.Scenario
	for _, sc := range scs {
		if sc.Name == name || strings.HasPrefix(sc.Name, name+"#") {
			out = append(out, sc)
		}
	}
	if len(out) == 0 {
		panic("no scenario " + name)
	}
	return out
}
