package props

import "verif/engine"

// configVariants returns, for the thorough tier, copies of the scenarios under
// deployment choices an application may legitimately make and that change how
// the library's code paths compose:
//   - a client-state store that returns a nil ClientState for a browser without state,
//   - an error handler that renders a 500 page (which flushes the client-state
//     changes queued before the error; the silent default drops them),
//   - an empty Paths.Mount.
//
// The oracles are unchanged. Depth is reduced by one to keep the tier's budget.
func configVariants(scs []engine.Scenario, tier string, which ...string) []engine.Scenario {
	if tier != "thorough" {
		return nil
	}
	var out []engine.Scenario
	for _, sc := range scs {
		if sc.ShardN > 1 && sc.ShardIdx != 0 {
			continue // variants of a sharded scenario are re-sharded below
		}
		for _, v := range which {
			c := sc
			c.ShardIdx, c.ShardN = 0, 0
			base := sc.Name
			if sc.ShardN > 1 {
				base = base[:len(base)-len("#0/8")]
				if i := lastIndexByte(sc.Name, '#'); i > 0 {
					base = sc.Name[:i]
				}
			}
			c.Name = base + "+" + v
			switch v {
			case "nil-state":
				c.Cfg.NilEmptyState = true
			case "err500":
				if c.Cfg.Err500 {
					continue
				}
				c.Cfg.Err500 = true
			case "nomount":
				c.Cfg.NoMount = true
			}
			if c.Depth > 3 {
				c.Depth--
			}
			if sc.ShardN > 1 {
				out = append(out, engine.Sharded(c, sc.ShardN)...)
			} else {
				out = append(out, c)
			}
		}
	}
	return out
}

func lastIndexByte(s string, b byte) int {
	for i := len(s) - 1; i >= 0; i-- {
		if s[i] == b {
			return i
		}
	}
	return -1
}
