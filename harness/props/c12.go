package props

import (
	"fmt"
	"strings"
	"time"

	"verif/engine"
	"verif/flows"
	"verif/world"
)

// C12 — one-time secrets are consumed by the login they enable and never work
// twice. E1; the oracle keeps its own unconsumed set per account (issuance seen
// on the pages, consumption = accepted once) and reads the stored lists from
// the copy-semantics database.

// accepted reports whether a credential request was accepted by the library
// (success-class response that moves the browser on).
func accepted(o *world.Obs) bool {
	if !o.OK() {
		return false
	}
	if o.Location != "" {
		// the login-completed landing page, or the hand-over to the second factor; a redirect to the
		// "account locked" / "not confirmed" pages is a refusal
		return strings.HasPrefix(o.Location, "/ok/") || strings.Contains(o.Location, "/2fa/")
	}
	return o.UIDAfter() != "" && o.UIDAfter() != o.UIDBefore()
}

func otpCount(r world.Row) int {
	if r.OTPs == "" {
		return 0
	}
	return len(strings.Split(r.OTPs, ","))
}

func c12Monitor(st *engine.Step) {
	o := st.Obs
	if o == nil {
		return
	}
	tag := o.Req.Tag
	pre, post := st.Pre, st.Post
	for pid, r := range post.DB.Users {
		if n := otpCount(r); n > 5 {
			st.Report(engine.Violation{Rule: "C12/more-than-five-otps", Detail: fmt.Sprintf("%s holds %d one-time passwords", pid, n)})
		}
	}
	switch tag.Kind {
	case "otp_add":
		u := o.UIDBefore()
		if r, ok := pre.DB.Users[u]; ok && otpCount(r) >= 5 {
			if otpCount(post.DB.Users[u]) != otpCount(r) || (o.JSON != nil && o.JSON["otp"] != nil) {
				st.Report(engine.Violation{Rule: "C12/sixth-otp-issued", Detail: "an account holding five one-time passwords was given another"})
			}
		}
	case "otplogin":
		if !accepted(o) {
			return
		}
		x := tag.PID
		sec := pre.Truth.ByVal("otp", tag.Secret)
		if sec == nil || sec.Dead || sec.Owner != x {
			st.Report(engine.Violation{Rule: "C12/otp-accepted-not-live", Attrs: "secret=" + tag.Note,
				Detail: fmt.Sprintf("one-time password login for %s accepted the value %s, which is not an unconsumed one-time password of that account (%s)", x, flows.Label(tag.Secret), describe(sec))})
			return
		}
		if world.HasOTP(post.DB.Users[x].OTPs, tag.Secret) {
			st.Report(engine.Violation{Rule: "C12/otp-not-removed", Detail: "the accepted one-time password is still in the stored list after the response: replaying the request would succeed"})
		}
	case "totp_validate", "sms_validate", "totp_remove", "sms_remove":
		x := o.UIDBefore()
		if x == "" {
			if tag.Kind == "totp_validate" {
				x = o.SessBefore["totp_pending"]
			} else if tag.Kind == "sms_validate" {
				x = o.SessBefore["sms_pending"]
			}
		}
		acc := accepted(o)
		if tag.Kind == "totp_remove" {
			acc = o.OK() && pre.DB.Users[x].TOTPSecretKey != "" && post.DB.Users[x].TOTPSecretKey == ""
		}
		if tag.Kind == "sms_remove" {
			acc = o.OK() && pre.DB.Users[x].SMSPhoneNumber != "" && post.DB.Users[x].SMSPhoneNumber == ""
		}
		if !acc {
			return
		}
		if tag.Recovery != "" {
			sec := pre.Truth.ByVal("rc", tag.Recovery)
			if sec == nil || sec.Dead || sec.Owner != x {
				st.Report(engine.Violation{Rule: "C12/recovery-code-accepted-not-live", Attrs: "kind=" + tag.Kind + ",secret=" + tag.Note,
					Detail: fmt.Sprintf("%s for %s accepted recovery code %q, which is not an unused recovery code of that account (%s)", tag.Kind, x, tag.Recovery, describe(sec))})
				return
			}
			if world.HasRecoveryCode(post.DB.Users[x].RecoveryCodes, tag.Recovery) {
				st.Report(engine.Violation{Rule: "C12/recovery-code-not-removed", Attrs: "kind=" + tag.Kind,
					Detail: "the accepted recovery code is still in the stored list after the response: replaying the request would succeed"})
			}
			return
		}
		if (tag.Kind == "totp_validate" || tag.Kind == "totp_remove") && st.S.Cfg.OneTimeUser {
			if last := pre.Truth.Flags["c12:last-totp:"+x]; last != "" && last == tag.Secret {
				st.Report(engine.Violation{Rule: "C12/totp-code-accepted-twice-in-a-row", Attrs: "second-use=" + tag.Kind,
					Detail: "with replay protection enabled the TOTP code that was accepted last was accepted again (" + tag.Kind + ")"})
			}
		}
		if tag.Kind == "sms_validate" {
			// (only where the request really completes a login, i.e. the session gets a new user: a session that is
			// already logged in re-validates as its own user, with a code sent to that user's own number)
			for i := len(pre.Truth.SMSLog) - 1; i >= 0 && o.UIDAfter() != o.UIDBefore(); i-- {
				if m := pre.Truth.SMSLog[i]; m.Code == tag.Secret && m.Browser == o.Req.Browser {
					if m.For != x {
						st.Report(engine.Violation{Rule: "C12/sms-code-of-another-account", Detail: fmt.Sprintf("the login of %s was completed with an SMS code that was sent for %s's login (to %s)", x, m.For, m.Number)})
					}
					break
				}
			}
			if pre.Truth.Flags["c12:sms-used:"+tag.Secret] != "" {
				st.Report(engine.Violation{Rule: "C12/sms-code-accepted-twice", Detail: "an SMS login code completed a second login"})
			}
		}
	}
}

func describe(sec *world.Secret) string {
	if sec == nil {
		return "never issued"
	}
	return fmt.Sprintf("issued to %s, dead=%v (%s)", sec.Owner, sec.Dead, sec.Why)
}

// c12Model records accepted TOTP / SMS codes (oracle-own memory).
func c12Model(st *engine.Step) {
	o := st.Obs
	if o == nil || !accepted(o) {
		return
	}
	tag := o.Req.Tag
	if tag.Recovery != "" {
		return
	}
	switch tag.Kind {
	case "totp_validate":
		if x := o.UIDAfter(); x != "" {
			st.Post.Truth.Flags["c12:last-totp:"+x] = tag.Secret
		}
	case "sms_validate":
		if tag.Secret != "" {
			st.Post.Truth.Flags["c12:sms-used:"+tag.Secret] = "1"
		}
	}
}

func c12Cover(st *engine.Step) []string {
	o := st.Obs
	if o == nil {
		return nil
	}
	tag := o.Req.Tag
	var c []string
	switch tag.Kind {
	case "otplogin", "totp_validate", "sms_validate", "totp_remove", "sms_remove":
		what := "code"
		if tag.Recovery != "" {
			what = "rc"
		}
		if tag.Kind == "otplogin" {
			what = "otp"
		}
		if accepted(o) {
			c = append(c, "accepted:"+tag.Kind+":"+what)
		} else {
			c = append(c, "refused:"+tag.Kind+":"+tag.Note)
		}
	case "otp_add":
		if o.JSON != nil && o.JSON["otp"] != nil {
			c = append(c, "otp-issued")
		} else if o.UIDBefore() != "" {
			c = append(c, "otp-add-refused")
		}
	case "regen":
		if o.JSON != nil && o.JSON["recovery_codes"] != nil {
			c = append(c, "recovery-codes-regenerated")
		}
	}
	return c
}

func c12Scenarios(tier string) []engine.Scenario {
	depth := 5
	if tier == "thorough" {
		depth = 6
	}
	var out []engine.Scenario
	accounts := []string{U1, U2}

	out = append(out, engine.Scenario{
		Name: "otp", Depth: depth, Cfg: world.Config{Modules: []string{"auth", "otp", "logout"}},
		Init: func(s *world.Stack) *world.World {
			w := world.NewWorld("B1", "B2")
			flows.SeedAcct(s, w, flows.Acct{PID: U1, Password: P1, OTPs: []string{"11111111-11111111-11111111-11111111", "22222222-22222222-22222222-22222222", "33333333-33333333-33333333-33333333"}})
			flows.SeedAcct(s, w, flows.Acct{PID: U2, Password: P2, OTPs: []string{"aaaaaaaa-aaaaaaaa-aaaaaaaa-aaaaaaaa", "bbbbbbbb-bbbbbbbb-bbbbbbbb-bbbbbbbb", "cccccccc-cccccccc-cccccccc-cccccccc", "dddddddd-dddddddd-dddddddd-dddddddd"}})
			return w
		},
		Actions: func(s *world.Stack, w *world.World) []engine.Action {
			var a []engine.Action
			for _, b := range bothBrowsers {
				b := b
				a = append(a, otpLoginActs(w, b, accounts, accounts, true)...)
				if b == "B1" {
					for _, pid := range accounts {
						pid := pid
						p, _ := curPassword(w, pid)
						a = append(a, flows.A(fmt.Sprintf("login(%s,%s,pw:cur)", b, short(pid)), func(s *world.Stack, _ *world.World) world.Req { return flows.Login(s, b, pid, p, false) }, ""))
					}
					a = append(a, simple("otp-add("+b+")", func(s *world.Stack) world.Req { return flows.OTPAdd(s, b) }))
					a = append(a, simple("otp-clear("+b+")", func(s *world.Stack) world.Req { return flows.OTPClear(s, b) }))
				}
				a = append(a, simple("logout("+b+")", func(s *world.Stack) world.Req { return flows.Logout(s, b) }))
			}
			return a
		},
		Model: c12Model, Monitor: c12Monitor, Cover: c12Cover,
		Need: []string{"accepted:otplogin:otp", "refused:otplogin:otp:used", "otp-issued", "otp-add-refused"},
	})

	// the same with modules whose EventAuth hooks load and save the user themselves (lock) or issue tokens (remember)
	{
		withLock := out[len(out)-1]
		withLock.Name = "otp+lock+remember"
		withLock.Cfg = world.Config{Modules: []string{"auth", "otp", "lock", "remember", "logout"}, LockAfter: 3}
		withLock.Depth = depth - 1
		withLock.Need = []string{"accepted:otplogin:otp", "refused:otplogin:otp:used"}
		out = append(out, withLock)
	}

	// one-time passwords as the first factor of an account that also has a second factor
	out = append(out, engine.Scenario{
		Name: "otp+totp", Depth: depth, Cfg: world.Config{Modules: []string{"auth", "otp", "totp2fa", "recovery", "logout"}},
		Init: func(s *world.Stack) *world.World {
			w := world.NewWorld("B1", "B2")
			flows.SeedAcct(s, w, flows.Acct{PID: U1, Password: P1, TOTPSecret: flows.TOTPSecrets[0], RecoveryCodes: []string{"aaaaa-11111"},
				OTPs: []string{"11111111-11111111-11111111-11111111", "22222222-22222222-22222222-22222222"}})
			flows.SeedAcct(s, w, flows.Acct{PID: U2, Password: P2, OTPs: []string{"aaaaaaaa-aaaaaaaa-aaaaaaaa-aaaaaaaa"}})
			return w
		},
		Actions: func(s *world.Stack, w *world.World) []engine.Action {
			var a []engine.Action
			for _, b := range bothBrowsers {
				a = append(a, otpLoginActs(w, b, accounts, accounts, false)...)
				a = append(a, twofaValidateActs(s, w, b, accounts, nil, false)...)
				a = append(a, simple("logout("+b+")", func(s *world.Stack) world.Req { return flows.Logout(s, b) }))
			}
			a = append(a, flows.Advance(31*time.Second))
			return a
		},
		Model: c12Model, Monitor: c12Monitor, Cover: c12Cover,
		Need: []string{"accepted:otplogin:otp", "accepted:totp_validate:code"},
	})

	for _, ot := range []bool{false, true} {
		ot := ot
		name := "totp"
		if ot {
			name = "totp-onetime"
		}
		out = append(out, engine.Scenario{
			Name: name, Depth: depth, Cfg: world.Config{Modules: []string{"auth", "totp2fa", "recovery", "logout"}, OneTimeUser: ot},
			Init: func(s *world.Stack) *world.World {
				w := world.NewWorld("B1", "B2")
				flows.SeedAcct(s, w, flows.Acct{PID: U1, Password: P1, TOTPSecret: flows.TOTPSecrets[0], RecoveryCodes: []string{"aaaaa-11111", "bbbbb-22222", "ccccc-33333"}})
				flows.SeedAcct(s, w, flows.Acct{PID: U2, Password: P2, TOTPSecret: flows.TOTPSecrets[1], RecoveryCodes: []string{"ddddd-44444", "eeeee-55555"}})
				return w
			},
			Actions: func(s *world.Stack, w *world.World) []engine.Action {
				var a []engine.Action
				for _, b := range bothBrowsers {
					b := b
					p1, _ := curPassword(w, U1)
					a = append(a, flows.A(fmt.Sprintf("login(%s,u1,pw:cur)", b), func(s *world.Stack, _ *world.World) world.Req { return flows.Login(s, b, U1, p1, false) }, ""))
					if b == "B2" {
						p2, _ := curPassword(w, U2)
						a = append(a, flows.A("login(B2,u2,pw:cur)", func(s *world.Stack, _ *world.World) world.Req { return flows.Login(s, b, U2, p2, false) }, ""))
					}
					a = append(a, twofaValidateActs(s, w, b, accounts, nil, true)...)
					if subj := w.UID(b); subj != "" {
						for _, c := range rcCands(w, subj, accounts, false) {
							c := c
							a = append(a, flows.A(fmt.Sprintf("totp-remove(%s,%s)", b, c.note), func(s *world.Stack, _ *world.World) world.Req {
								r := flows.TOTPRemove(s, b, "", c.val)
								r.Tag.Note = c.note
								return r
							}, ""))
						}
						a = append(a, simple("regen("+b+")", func(s *world.Stack) world.Req { return flows.Regen(s, b) }))
						if sec := w.DB.Users[subj].TOTPSecretKey; sec != "" {
							// disabling with the code of the moment (the one the login may just have used)
							code := flows.TOTPCode(w, sec, 0)
							a = append(a, flows.A(fmt.Sprintf("totp-remove(%s,totp:now)", b), func(s *world.Stack, _ *world.World) world.Req {
								r := flows.TOTPRemove(s, b, code, "")
								r.Tag.Note = "totp:now"
								return r
							}, ""))
						}
					}
					a = append(a, simple("logout("+b+")", func(s *world.Stack) world.Req { return flows.Logout(s, b) }))
				}
				a = append(a, flows.Advance(31*time.Second))
				return a
			},
			Model: c12Model, Monitor: c12Monitor, Cover: c12Cover,
			Need: []string{"accepted:totp_validate:code", "accepted:totp_validate:rc", "refused:totp_validate:rc:used", "recovery-codes-regenerated"},
		})
	}

	out = append(out, engine.Scenario{
		Name: "sms", Depth: depth, Cfg: world.Config{Modules: []string{"auth", "sms2fa", "recovery", "logout"}},
		Init: func(s *world.Stack) *world.World {
			w := world.NewWorld("B1", "B2")
			flows.SeedAcct(s, w, flows.Acct{PID: U1, Password: P1, SMSNumber: N1, RecoveryCodes: []string{"aaaaa-11111", "bbbbb-22222", "ccccc-33333"}})
			flows.SeedAcct(s, w, flows.Acct{PID: U2, Password: P2, SMSNumber: N2, RecoveryCodes: []string{"ddddd-44444", "eeeee-55555"}})
			return w
		},
		Actions: func(s *world.Stack, w *world.World) []engine.Action {
			var a []engine.Action
			for _, b := range bothBrowsers {
				b := b
				p1, _ := curPassword(w, U1)
				a = append(a, flows.A(fmt.Sprintf("login(%s,u1,pw:cur)", b), func(s *world.Stack, _ *world.World) world.Req { return flows.Login(s, b, U1, p1, false) }, ""))
				if b == "B2" {
					p2, _ := curPassword(w, U2)
					a = append(a, flows.A("login(B2,u2,pw:cur)", func(s *world.Stack, _ *world.World) world.Req { return flows.Login(s, b, U2, p2, false) }, ""))
				}
				a = append(a, twofaValidateActs(s, w, b, accounts, []string{N1, N2}, true)...)
				if subj := w.UID(b); subj != "" {
					for _, c := range rcCands(w, subj, accounts, false) {
						c := c
						a = append(a, flows.A(fmt.Sprintf("sms-remove(%s,%s)", b, c.note), func(s *world.Stack, _ *world.World) world.Req {
							r := flows.SMSRemove(s, b, "", c.val)
							r.Tag.Note = c.note
							return r
						}, ""))
					}
				}
				a = append(a, simple("logout("+b+")", func(s *world.Stack) world.Req { return flows.Logout(s, b) }))
			}
			a = append(a, flows.Advance(11*time.Second))
			return a
		},
		Model: c12Model, Monitor: c12Monitor, Cover: c12Cover,
		Need: []string{"accepted:sms_validate:code", "accepted:sms_validate:rc", "refused:sms_validate:rc:used"},
	})
	// two accounts registered with the same phone number: a code belongs to the login it was sent for, not to the number
	{
		shared := out[len(out)-1]
		shared.Name = "sms-shared-number"
		shared.Depth = depth - 1
		shared.Init = func(s *world.Stack) *world.World {
			w := world.NewWorld("B1", "B2")
			flows.SeedAcct(s, w, flows.Acct{PID: U1, Password: P1, SMSNumber: N1, RecoveryCodes: []string{"aaaaa-11111"}})
			flows.SeedAcct(s, w, flows.Acct{PID: U2, Password: P2, SMSNumber: N1, RecoveryCodes: []string{"ddddd-44444"}})
			return w
		}
		shared.Need = []string{"accepted:sms_validate:code"}
		out = append(out, shared)
	}
	return out
}

func init() {
	engine.Register(&engine.Property{
		ID: "C12", Level: "model_checking",
		Rule: "E1 over generate / use / replay / clear / regenerate histories with foreign, stale, stored-hash and empty candidates; acceptance must come from the oracle's own unconsumed set and the accepted value's hash must be gone from the (copy-semantics) database after the response; classes = accepted/refused kinds hit",
		Units: func(tier string) []engine.Unit {
			scs := c12Scenarios(tier)
			return e1Units(append(scs, configVariants(scs, tier, "faults", "err500", "nil-state", "nomount", "json", "localizer")...))
		},
		Assumptions: []string{"storage has database semantics (copies, not shared pointers)", "bounded depth, 2 accounts, 2 browsers"},
	})
}
