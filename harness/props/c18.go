package props

import (
	"fmt"
	"sort"
	"strings"
	"time"

	"github.com/volatiletech/authboss/v3"
	"verif/engine"
	"verif/flows"
	"verif/world"
)

// C18 — backend failures never panic, fake success or weaken security state.
// E3: a scripted tour reaches every handler of every flow; for EACH request x
// EACH backend call it makes (storer and its upgrades, hasher, view renderer,
// SMS sender) x EACH error kind x {silent error handler, 500-writing handler}
// one faulted execution runs from the cloned pre-state.

type tourStep struct {
	name string
	// act resolves the step against the current world (nil = not applicable)
	act func(s *world.Stack, w *world.World) *engine.Action
}

func reqStep(name string, forPID string, build func(s *world.Stack, w *world.World) (world.Req, bool)) tourStep {
	return tourStep{name: name, act: func(s *world.Stack, w *world.World) *engine.Action {
		rq, ok := build(s, w)
		if !ok {
			return nil
		}
		a := flows.A(name, func(*world.Stack, *world.World) world.Req { return rq }, forPID)
		return &a
	}}
}

func envStep(a engine.Action) tourStep {
	return tourStep{name: a.Name, act: func(*world.Stack, *world.World) *engine.Action { return &a }}
}

func liveVal(w *world.World, kind, owner string) (string, bool) {
	if s := w.Truth.Newest(kind, owner, false); s != nil {
		return s.Val, true
	}
	return "", false
}

func c18TourA() []tourStep {
	return []tourStep{
		reqStep("register(B1,u3)", U3, func(s *world.Stack, w *world.World) (world.Req, bool) {
			return flows.Register(s, "B1", map[string]string{"email": U3, "password": P3, "confirm_password": P3}), true
		}),
		reqStep("confirm(B1,ctok:live(u3))", "", func(s *world.Stack, w *world.World) (world.Req, bool) {
			v, ok := liveVal(w, "ctok", U3)
			return flows.Confirm(s, "B1", v), ok
		}),
		reqStep("login(B1,u3,pw,rm)", "", func(s *world.Stack, w *world.World) (world.Req, bool) {
			return flows.Login(s, "B1", U3, P3, true), true
		}),
		reqStep("prot(B1)", "", func(s *world.Stack, w *world.World) (world.Req, bool) { return flows.Prot("B1"), true }),
		reqStep("otp-add(B1)", "", func(s *world.Stack, w *world.World) (world.Req, bool) { return flows.OTPAdd(s, "B1"), true }),
		reqStep("otp-add(B1)#2", "", func(s *world.Stack, w *world.World) (world.Req, bool) { return flows.OTPAdd(s, "B1"), true }),
		reqStep("logout(B1)", "", func(s *world.Stack, w *world.World) (world.Req, bool) { return flows.Logout(s, "B1"), true }),
		reqStep("otplogin(B1,u3,otp:live,rm)", "", func(s *world.Stack, w *world.World) (world.Req, bool) {
			v, ok := liveVal(w, "otp", U3)
			return flows.OTPLogin(s, "B1", U3, v, true), ok
		}),
		reqStep("otp-clear(B1)", "", func(s *world.Stack, w *world.World) (world.Req, bool) { return flows.OTPClear(s, "B1"), true }),
		// u1 holds a remember token of its own when its password is recovered: the reset has tokens to revoke
		reqStep("login(B2,u1,pw,rm)", "", func(s *world.Stack, w *world.World) (world.Req, bool) {
			return flows.Login(s, "B2", U1, P1, true), true
		}),
		reqStep("logout(B2)#u1", "", func(s *world.Stack, w *world.World) (world.Req, bool) { return flows.Logout(s, "B2"), true }),
		reqStep("login(B2,u1,pw:wrong)", "", func(s *world.Stack, w *world.World) (world.Req, bool) {
			return flows.Login(s, "B2", U1, "Wr0ng!pass", false), true
		}),
		reqStep("recover-start(B2,u1)", U1, func(s *world.Stack, w *world.World) (world.Req, bool) { return flows.RecoverStart(s, "B2", U1), true }),
		reqStep("recover-end-get(B2)", "", func(s *world.Stack, w *world.World) (world.Req, bool) {
			v, ok := liveVal(w, "rtok", U1)
			return world.Req{Browser: "B2", Method: "GET", Path: "/auth/recover/end?token=" + v, Tag: world.Tag{Kind: "recover_end_get"}}, ok && !s.Cfg.JSON
		}),
		reqStep("recover-end(B2,rtok:live(u1))", "", func(s *world.Stack, w *world.World) (world.Req, bool) {
			v, ok := liveVal(w, "rtok", U1)
			return flows.RecoverEnd(s, "B2", v, "Rec0vered!pw"), ok
		}),
		envStep(flows.Restart("B1")),
		reqStep("open(B1)#remember", "", func(s *world.Stack, w *world.World) (world.Req, bool) { return flows.Open("B1"), true }),
		reqStep("full(B1)", "", func(s *world.Stack, w *world.World) (world.Req, bool) { return flows.Full("B1"), true }),
		reqStep("oauth-start(B2,google,rm)", "", func(s *world.Stack, w *world.World) (world.Req, bool) {
			return flows.OAuthStart(s, "B2", "google", "rm=true"), true
		}),
		reqStep("oauth-cb(B2,google,own,c:7)", "", func(s *world.Stack, w *world.World) (world.Req, bool) {
			st := w.Browsers["B2"].Session[authboss.SessionOAuth2State]
			return flows.OAuthCallback(s, "B2", "google", st, "c:7", ""), st != ""
		}),
		reqStep("login(B1,u2,pw:wrong)#1", "", func(s *world.Stack, w *world.World) (world.Req, bool) {
			return flows.Login(s, "B1", U2, "Wr0ng!pass", false), true
		}),
		reqStep("login(B1,u2,pw:wrong)#2-locks", "", func(s *world.Stack, w *world.World) (world.Req, bool) {
			return flows.Login(s, "B1", U2, "Wr0ng!pass", false), true
		}),
		reqStep("login(B1,u2,pw:cur)#locked", "", func(s *world.Stack, w *world.World) (world.Req, bool) {
			return flows.Login(s, "B1", U2, P2, false), true
		}),
		reqStep("logout(B2)", "", func(s *world.Stack, w *world.World) (world.Req, bool) { return flows.Logout(s, "B2"), true }),
	}
}

func c18TourB(emailAuth bool) []tourStep {
	b := "B1"
	st := []tourStep{
		reqStep("login(B1,u1,pw,rm)", "", func(s *world.Stack, w *world.World) (world.Req, bool) { return flows.Login(s, b, U1, P1, true), true }),
	}
	if emailAuth {
		st = append(st,
			reqStep("verify-start(B1,totp)", "", func(s *world.Stack, w *world.World) (world.Req, bool) { return flows.VerifyStart(s, b, "totp"), true }),
			reqStep("verify-end(B1,totp,vtok:live)", "", func(s *world.Stack, w *world.World) (world.Req, bool) {
				v, ok := liveVal(w, "vtok", U1)
				return flows.VerifyEnd(s, b, "totp", v), ok
			}))
	}
	st = append(st,
		reqStep("totp-setup-get(B1)", "", func(s *world.Stack, w *world.World) (world.Req, bool) {
			return world.Req{Browser: b, Method: "GET", Path: "/auth/2fa/totp/setup", ForceForm: true, Tag: world.Tag{Kind: "totp_setup_get"}}, true
		}),
		reqStep("totp-setup(B1)", "", func(s *world.Stack, w *world.World) (world.Req, bool) { return flows.TOTPSetup(s, b), true }),
		reqStep("totp-qr(B1)", "", func(s *world.Stack, w *world.World) (world.Req, bool) {
			return world.Req{Browser: b, Method: "GET", Path: "/auth/2fa/totp/qr", ForceForm: true, Tag: world.Tag{Kind: "totp_qr"}}, true
		}),
		reqStep("totp-confirm(B1,valid)", "", func(s *world.Stack, w *world.World) (world.Req, bool) {
			sec := w.Browsers[b].Session["totp_secret"]
			return flows.TOTPConfirm(s, b, flows.TOTPCode(w, sec, 0)), sec != ""
		}),
		reqStep("logout(B1)", "", func(s *world.Stack, w *world.World) (world.Req, bool) { return flows.Logout(s, b), true }),
		envStep(flows.Advance(61*time.Second)),
		reqStep("login(B1,u1,pw)#pending", "", func(s *world.Stack, w *world.World) (world.Req, bool) { return flows.Login(s, b, U1, P1, false), true }),
		reqStep("totp-validate(B1,wrong)", "", func(s *world.Stack, w *world.World) (world.Req, bool) {
			return flows.TOTPValidate(s, b, "000000", ""), true
		}),
		reqStep("totp-validate(B1,code)", "", func(s *world.Stack, w *world.World) (world.Req, bool) {
			sec := w.DB.Users[U1].TOTPSecretKey
			return flows.TOTPValidate(s, b, flows.TOTPCode(w, sec, 0), ""), sec != ""
		}),
		reqStep("regen(B1)", "", func(s *world.Stack, w *world.World) (world.Req, bool) { return flows.Regen(s, b), true }),
		reqStep("logout(B1)#2", "", func(s *world.Stack, w *world.World) (world.Req, bool) { return flows.Logout(s, b), true }),
		envStep(flows.Advance(31*time.Second)),
		reqStep("login(B1,u1,pw)#pending2", "", func(s *world.Stack, w *world.World) (world.Req, bool) { return flows.Login(s, b, U1, P1, false), true }),
		reqStep("totp-validate(B1,rc:live)", "", func(s *world.Stack, w *world.World) (world.Req, bool) {
			v, ok := liveVal(w, "rc", U1)
			return flows.TOTPValidate(s, b, "", v), ok
		}),
		reqStep("totp-remove(B1,code)", "", func(s *world.Stack, w *world.World) (world.Req, bool) {
			sec := w.DB.Users[U1].TOTPSecretKey
			return flows.TOTPRemove(s, b, flows.TOTPCode(w, sec, 0), ""), sec != ""
		}),
	)
	if emailAuth {
		st = append(st,
			reqStep("verify-start(B1,sms)", "", func(s *world.Stack, w *world.World) (world.Req, bool) { return flows.VerifyStart(s, b, "sms"), true }),
			reqStep("verify-end(B1,sms,vtok:live)", "", func(s *world.Stack, w *world.World) (world.Req, bool) {
				v, ok := liveVal(w, "vtok", U1)
				return flows.VerifyEnd(s, b, "sms", v), ok
			}))
	}
	st = append(st,
		reqStep("sms-setup-get(B1)", "", func(s *world.Stack, w *world.World) (world.Req, bool) {
			return world.Req{Browser: b, Method: "GET", Path: "/auth/2fa/sms/setup", ForceForm: true, Tag: world.Tag{Kind: "sms_setup_get"}}, true
		}),
		reqStep("sms-setup(B1,N1)", "", func(s *world.Stack, w *world.World) (world.Req, bool) { return flows.SMSSetup(s, b, N1), true }),
		reqStep("sms-confirm(B1,code)", "", func(s *world.Stack, w *world.World) (world.Req, bool) {
			c := w.Browsers[b].Session["sms_secret"]
			return flows.SMSConfirm(s, b, c), c != ""
		}),
		reqStep("logout(B1)#3", "", func(s *world.Stack, w *world.World) (world.Req, bool) { return flows.Logout(s, b), true }),
		envStep(flows.Advance(11*time.Second)),
		reqStep("login(B1,u2,pw)#sms-pending-other", "", func(s *world.Stack, w *world.World) (world.Req, bool) { return flows.Login(s, b, U2, P2, false), true }),
		envStep(flows.Advance(11*time.Second)),
		reqStep("login(B1,u1,pw)#sms-pending", "", func(s *world.Stack, w *world.World) (world.Req, bool) { return flows.Login(s, b, U1, P1, false), true }),
		envStep(flows.Advance(11*time.Second)),
		reqStep("sms-validate(B1,resend)", "", func(s *world.Stack, w *world.World) (world.Req, bool) { return flows.SMSValidate(s, b, "", ""), true }),
		reqStep("sms-validate(B1,wrong)", "", func(s *world.Stack, w *world.World) (world.Req, bool) {
			return flows.SMSValidate(s, b, "000000", ""), true
		}),
		reqStep("sms-validate(B1,code)", "", func(s *world.Stack, w *world.World) (world.Req, bool) {
			c := w.Browsers[b].Session["sms_secret"]
			return flows.SMSValidate(s, b, c, ""), c != ""
		}),
		envStep(flows.Advance(11*time.Second)),
		reqStep("sms-remove(B1,resend)", "", func(s *world.Stack, w *world.World) (world.Req, bool) { return flows.SMSRemove(s, b, "", ""), true }),
		reqStep("sms-remove(B1,code)", "", func(s *world.Stack, w *world.World) (world.Req, bool) {
			c := w.Browsers[b].Session["sms_secret"]
			return flows.SMSRemove(s, b, c, ""), c != ""
		}),
		// a second browser: the SMS account completes its login with a recovery code
		reqStep("login(B2,u2,pw)#sms-pending", "", func(s *world.Stack, w *world.World) (world.Req, bool) { return flows.Login(s, "B2", U2, P2, false), true }),
		reqStep("sms-validate(B2,rc:live)", "", func(s *world.Stack, w *world.World) (world.Req, bool) {
			v, ok := liveVal(w, "rc", U2)
			return flows.SMSValidate(s, "B2", "", v), ok
		}),
		reqStep("logout(B2)", "", func(s *world.Stack, w *world.World) (world.Req, bool) { return flows.Logout(s, "B2"), true }),
		// ... and an account that already has TOTP logs in and switches it off with a recovery code
		reqStep("login(B2,u4,pw)#pending", "", func(s *world.Stack, w *world.World) (world.Req, bool) { return flows.Login(s, "B2", c18U4, P3, false), true }),
		reqStep("totp-validate(B2,code)", "", func(s *world.Stack, w *world.World) (world.Req, bool) {
			sec := w.DB.Users[c18U4].TOTPSecretKey
			return flows.TOTPValidate(s, "B2", flows.TOTPCode(w, sec, 0), ""), sec != ""
		}),
		reqStep("totp-remove(B2,rc:live)", "", func(s *world.Stack, w *world.World) (world.Req, bool) {
			v, ok := liveVal(w, "rc", c18U4)
			return flows.TOTPRemove(s, "B2", "", v), ok
		}),
	)
	return st
}

const c18U4 = "u4@x.io"

// ---- credential probes (O4)

// acceptable returns the set "probe => effect" of every credential the oracle
// knew in `known` that is accepted when presented to world w (each on a clone).
func acceptable(s *world.Stack, w *world.World, known *world.World, actor string) map[string]bool {
	out := map[string]bool{}
	add := func(name string, cl *world.World, o *world.Obs, b string) {
		switch {
		case o.UIDAfter() != "" && o.UIDAfter() != o.UIDBefore():
			out[name+"=>session:"+o.UIDAfter()] = true
		case o.SessAfter["totp_pending"] != "" && o.SessAfter["totp_pending"] != o.SessBefore["totp_pending"]:
			out[name+"=>pending:"+o.SessAfter["totp_pending"]] = true
		case o.SessAfter["sms_pending"] != "" && o.SessAfter["sms_pending"] != o.SessBefore["sms_pending"]:
			out[name+"=>pending:"+o.SessAfter["sms_pending"]] = true
		}
	}
	run := func(name, b string, rq world.Req, prep func(cl *world.World)) {
		cl := w.Clone()
		if prep != nil {
			prep(cl)
		}
		saveAt, saveKind, saveLabel := s.FaultAt, s.FaultKind, s.FaultLabel
		s.FaultAt, s.FaultAt2, s.FaultLabel = -1, -1, ""
		o := flows.Exec(s, cl, rq, "")
		s.FaultAt, s.FaultKind, s.FaultLabel = saveAt, saveKind, saveLabel
		add(name, cl, o, b)
		if rq.Tag.Kind == "recover_end" || rq.Tag.Kind == "confirm" {
			for pid, r := range cl.DB.Users {
				if r.Password != w.DB.Users[pid].Password || r.Confirmed != w.DB.Users[pid].Confirmed {
					out[name+"=>changed:"+pid] = true
				}
			}
		}
	}
	pids := known.DB.PIDs()
	var pws []string
	for k := range known.Truth.Flags {
		if strings.HasPrefix(k, "c17:pw:") {
			pws = append(pws, strings.TrimPrefix(k, "c17:pw:"))
		}
	}
	sort.Strings(pws)
	for _, pid := range pids {
		for _, pw := range pws {
			run("login("+short(pid)+","+flows.Label(pw)+")", "B3", flows.Login(s, "B3", pid, pw, false), nil)
		}
	}
	for _, sec := range known.Truth.Secrets {
		v := sec.Val
		switch sec.Kind {
		case "otp":
			if s.Cfg.Has("otp") {
				run("otplogin("+short(sec.Owner)+","+flows.Label(v)+")", "B3", flows.OTPLogin(s, "B3", sec.Owner, v, false), nil)
			}
		case "rm":
			if s.Cfg.Has("remember") {
				run("cookie("+flows.Label(v)+")", "B3", flows.Open("B3"), func(cl *world.World) { cl.Browsers["B3"].Cookies["rm"] = v })
			}
		case "rtok":
			if s.Cfg.Has("recover") {
				run("recover-end("+flows.Label(v)+")", "B3", flows.RecoverEnd(s, "B3", v, "Pr0be!passw"), nil)
			}
		case "ctok":
			if s.Cfg.Has("confirm") {
				run("confirm("+flows.Label(v)+")", "B3", flows.Confirm(s, "B3", v), nil)
			}
		case "rc":
			if s.Cfg.Has("totp2fa") {
				run("totp-validate(rc:"+v+")", actor, flows.TOTPValidate(s, actor, "", v), nil)
			}
			if s.Cfg.Has("sms2fa") {
				run("sms-validate(rc:"+v+")", actor, flows.SMSValidate(s, actor, "", v), nil)
			}
		}
	}
	if s.Cfg.Has("sms2fa") {
		seen := map[string]bool{}
		for _, m := range known.Truth.SMSLog {
			if !seen[m.Code] {
				seen[m.Code] = true
				run("sms-validate(code-sent-to:"+m.Number+":"+m.Code+")", actor, flows.SMSValidate(s, actor, m.Code, ""), nil)
			}
		}
	}
	if s.Cfg.Has("totp2fa") {
		for _, pid := range pids {
			if sec := known.DB.Users[pid].TOTPSecretKey; sec != "" {
				run("totp-validate(code-of:"+short(pid)+")", actor, flows.TOTPValidate(s, actor, flows.TOTPCode(w, sec, 0), ""), nil)
			}
		}
	}
	return out
}

func dbCanon(w *world.World) string {
	t := w.Clone()
	t.Browsers = map[string]*world.Browser{}
	t.Truth.Flags, t.Truth.Times, t.Truth.Ints, t.Truth.SMSLog = map[string]string{}, map[string]time.Time{}, map[string]int{}, nil
	c := t.Canon(100 * time.Hour)
	// the oracle's memory lines are not part of the database
	var keep []string
	for _, l := range strings.Split(c, "\n") {
		if strings.HasPrefix(l, "U[") || strings.HasPrefix(l, "T[") {
			keep = append(keep, l)
		}
	}
	return strings.Join(keep, "\n")
}

func successClass(o *world.Obs) string {
	if !o.OK() {
		return "error"
	}
	return fmt.Sprintf("ok:%d:%s", o.Status, o.Location)
}

func c18Run(name string, cfg world.Config, tour []tourStep, pairs bool, dl time.Time) engine.UnitResult {
	res := engine.UnitResult{Exhaustive: true, Distinct: map[string]bool{}, Cover: map[string]int{}}
	t0 := time.Now()
	s, err := world.NewStack(cfg)
	if err != nil {
		res.Violations = append(res.Violations, engine.Violation{Rule: "harness/init", Detail: err.Error()})
		return res
	}
	w := world.NewWorld("B1", "B2", "B3")
	flows.SeedAcct(s, w, flows.Acct{PID: U1, Password: P1})
	flows.SeedAcct(s, w, flows.Acct{PID: U2, Password: P2, SMSNumber: N2, RecoveryCodes: []string{"ddddd-44444"}})
	if cfg.Has("totp2fa") {
		flows.SeedAcct(s, w, flows.Acct{PID: c18U4, Password: P3, TOTPSecret: flows.TOTPSecrets[2], RecoveryCodes: []string{"fffff-66666", "ggggg-77777"}})
	}
	for _, p := range []string{P1, P2, P3, "Rec0vered!pw", "Wr0ng!pass"} {
		w.Truth.Flags["c17:pw:"+p] = "1"
	}
	var done []string
	sigSeen := map[string]bool{}
	report := func(rule, attrs, detail string, path []string) {
		sig := rule + "/" + attrs
		if sigSeen[sig] {
			return
		}
		sigSeen[sig] = true
		res.Violations = append(res.Violations, engine.Violation{Rule: "C18/" + rule, Attrs: attrs, Detail: detail, Scen: name, Path: path})
	}
	for _, step := range tour {
		act := step.act(s, w)
		if act == nil {
			res.Cover["tour-step-skipped:"+step.name]++
			continue
		}
		// fault-free reference run (on a clone) to learn the seam calls and the outcome
		ref := w.Clone()
		s.FaultAt, s.FaultAt2, s.FaultLabel = -1, -1, ""
		oRef := act.Run(s, ref)
		if oRef != nil && strings.HasPrefix(oRef.Req.Path, s.AB.Config.Paths.Mount+"/") || oRef != nil && len(oRef.SeamCalls) > 0 {
			calls := oRef.SeamCalls
			actor := oRef.Req.Browser
			var preAcc, refAcc map[string]bool
			type plan struct {
				k, k2 int
				kind  world.FaultKind
			}
			var plans []plan
			for k := range calls {
				plans = append(plans, plan{k, -1, world.FaultGeneric})
				if hasSentinel(calls[k]) {
					plans = append(plans, plan{k, -1, world.FaultNotFound})
				}
			}
			if pairs {
				// every pair of failing calls within one request (generic errors)
				for k := range calls {
					for k2 := k + 1; k2 < len(calls); k2++ {
						plans = append(plans, plan{k, k2, world.FaultGeneric})
					}
				}
			}
			for _, pl := range plans {
				k, kind := pl.k, pl.kind
				{
					if !dl.IsZero() && time.Now().After(dl) {
						res.Exhaustive, res.CapHit = false, "deadline"
						res.WallS = time.Since(t0).Seconds()
						return res
					}
					if preAcc == nil {
						preAcc = acceptable(s, w, w, actor)
						refAcc = acceptable(s, ref, w, actor) // what the request legitimately makes acceptable when nothing fails
					}
					cl := w.Clone()
					s.FaultAt, s.FaultAt2, s.FaultKind = k, pl.k2, kind
					o := act.Run(s, cl)
					s.FaultAt, s.FaultAt2 = -1, -1
					res.Evaluations++
					kname := map[world.FaultKind]string{world.FaultGeneric: "error", world.FaultNotFound: "not-found"}[kind]
					class := fmt.Sprintf("%s@%s:%s", oRef.Req.Tag.Kind, calls[k], kname)
					if pl.k2 >= 0 {
						class += "+" + calls[pl.k2]
						res.Cover["fault-pairs"]++
					}
					res.Distinct[class] = true
					res.Cover["fault:"+strings.SplitN(calls[k], ":", 2)[0]]++
					path := append(append([]string(nil), done...), fmt.Sprintf("%s !fault(call #%d %s -> %s)", act.Name, k, calls[k], kname))
					if pl.k2 >= 0 {
						path[len(path)-1] += fmt.Sprintf(" !fault(call #%d %s -> error)", pl.k2, calls[pl.k2])
					}
					if len(o.FaultFired) == 0 {
						continue // the faulted run took another path and never reached that call
					}
					where := fmt.Sprintf("request %s with backend call #%d (%s) returning %s", act.Name, k, calls[k], kname)
					if pl.k2 >= 0 {
						where += fmt.Sprintf(" and call #%d (%s) failing too", pl.k2, calls[pl.k2])
					}
					// O1
					if o.Panic != "" {
						report("panic", "request="+oRef.Req.Tag.Kind+",call="+calls[k], where+": the request panicked: "+firstLineOf(o.Panic), path)
						continue
					}
					// O2: success implies saved
					if strings.HasPrefix(o.Req.Path, s.AB.Config.Paths.Mount+"/") && successClass(o) == successClass(oRef) && o.OK() {
						// (a look-up answering "not found" legitimately leads to the faked success of the unknown-account
						// paths; a Save answering "not found" did not save)
						if a, b := dbCanon(cl), dbCanon(ref); a != b && (kind == world.FaultGeneric || calls[k] == "db.Save") {
							report("success-without-save", "request="+oRef.Req.Tag.Kind+",call="+calls[k],
								where+": the response is the same success as without the failure ("+successClass(o)+") but the database differs from the fault-free outcome", path)
						}
					}
					// O3: a session issued on a one-time credential requires its durable consumption
					if u2 := o.UIDAfter(); u2 != "" && u2 != o.UIDBefore() {
						tag := o.Req.Tag
						row := cl.DB.Users[u2]
						bad := ""
						switch {
						case tag.Kind == "otplogin" && world.HasOTP(row.OTPs, tag.Secret):
							bad = "one-time password"
						case (tag.Kind == "totp_validate" || tag.Kind == "sms_validate") && tag.Recovery != "" && world.HasRecoveryCode(row.RecoveryCodes, tag.Recovery):
							bad = "recovery code"
						case tag.Kind == "totp_validate" && tag.Recovery == "" && cfg.OneTimeUser && row.TOTPLastCode != tag.Secret:
							bad = "TOTP code (replay protection)"
						case tag.Kind == "recover_end" && row.RecoverSelector != "":
							bad = "recovery token"
						}
						if c := o.CookBefore["rm"]; bad == "" && c != "" && o.UIDBefore() == "" && (tag.Kind == "open" || tag.Kind == "full" || tag.Kind == "prot") {
							if h, ok := world.RememberHash(c); ok && tokenRowHas(cl, h) {
								bad = "remember token"
							}
						}
						if bad != "" {
							report("session-without-consumption", "request="+tag.Kind+",credential="+strings.Fields(bad)[0]+",call="+calls[k],
								where+": a session for "+u2+" was issued on a "+bad+" whose consumption was not saved", path)
						}
					}
					// O5: a remember token that storage reported consumed during the request is not back in the table afterwards
					for _, h := range o.UsedTokens {
						if tokenRowHas(cl, h) {
							report("spent-token-restored", "request="+oRef.Req.Tag.Kind+",call="+calls[k],
								where+": a remember token that UseRememberToken had consumed is in the token table again after the request: the spent cookie is acceptable again", path)
						}
					}
					// O4: a failed request only ever invalidates credentials
					post := acceptable(s, cl, w, actor)
					for k2 := range post {
						if !preAcc[k2] && !refAcc[k2] {
							report("credential-became-acceptable", "request="+oRef.Req.Tag.Kind+",call="+calls[k]+",probe="+strings.SplitN(k2, "(", 2)[0],
								where+": afterwards the credential probe "+k2+" succeeds although it did not before the request and does not after the same request without the failure", path)
						}
					}
				}
			}
		}
		// advance the tour fault-free
		s.FaultAt, s.FaultAt2, s.FaultLabel = -1, -1, ""
		o := act.Run(s, w)
		if o != nil {
			res.Cover["tour:"+o.Req.Tag.Kind]++
			if !o.OK() && o.Req.Tag.Note != "expect-fail" && !strings.Contains(step.name, "wrong") && !strings.Contains(step.name, "locked") {
				res.Cover["tour-step-failed:"+step.name]++
			}
		}
		done = append(done, act.Name)
	}
	res.Samples = []interface{}{strings.Join(done, " ; ")}
	res.WallS = time.Since(t0).Seconds()
	return res
}

func hasSentinel(label string) bool {
	switch label {
	case "db.Load", "db.Save", "db.LoadByConfirmSelector", "db.LoadByRecoverSelector", "db.UseRememberToken", "db.Create":
		return true
	}
	return false
}

func c18Units(tier string) []engine.Unit {
	var us []engine.Unit
	add := func(name string, cfg world.Config, tour []tourStep) {
		for _, e500 := range []bool{false, true} {
			c := cfg
			c.Err500 = e500
			n := fmt.Sprintf("%s,err500=%v", name, e500)
			us = append(us, engine.Unit{Name: n, Run: func(dl time.Time) engine.UnitResult { return c18Run(n, c, tour, tier == "thorough", dl) }})
		}
	}
	modsA := []string{"auth", "otp", "remember", "register", "confirm", "recover", "lock", "logout", "oauth2"}
	add("tourA", world.Config{Modules: modsA, RecoverLoginAfter: true, LockAfter: 2, ProtFail: authboss.RespondRedirect}, c18TourA())
	add("tourA-json", world.Config{Modules: modsA, RecoverLoginAfter: true, LockAfter: 2, JSON: true}, c18TourA())
	add("tourA-nologin", world.Config{Modules: modsA, RecoverLoginAfter: false, LockAfter: 2}, c18TourA())
	modsA2 := []string{"auth", "otp", "remember", "register", "recover", "logout", "oauth2"}
	add("tourA-nolock-noconfirm", world.Config{Modules: modsA2, RecoverLoginAfter: true}, c18TourA())
	add("tourB-nolock", world.Config{Modules: []string{"auth", "remember", "logout", "totp2fa", "sms2fa", "recovery"}}, c18TourB(false))
	add("tourB-nolock-onetime", world.Config{Modules: []string{"auth", "remember", "logout", "totp2fa", "sms2fa", "recovery"}, OneTimeUser: true}, c18TourB(false))
	modsB := []string{"auth", "remember", "lock", "logout", "totp2fa", "sms2fa", "recovery"}
	add("tourB", world.Config{Modules: modsB}, c18TourB(false))
	add("tourB-onetime", world.Config{Modules: modsB, OneTimeUser: true}, c18TourB(false))
	add("tourB-emailauth", world.Config{Modules: modsB, EmailAuthRequired: true, OneTimeUser: true}, c18TourB(true))
	return us
}

func init() {
	engine.Register(&engine.Property{
		ID: "C18", Level: "fault_enumeration",
		Rule:        "scripted tours through every handler of every flow (register, confirm, login+rm, protected route, OTP add/login/clear, recover start/middle/end with login-after on and off, remember re-authentication, OAuth2 start/callback, lock-triggering failures, e-mail verify start/end, TOTP setup/qr/confirm/validate by code and by recovery code/remove, SMS setup/confirm/resend/validate/remove, regen); for each request every backend call it makes is failed in turn (generic error, and the interface's not-found sentinel where it has one) under the silent and the 500-writing error handler; oracles: no panic, success implies saved, session on a one-time credential implies durable consumption, credential-acceptance monotonicity (probes on clones); classes = distinct (request kind, backend call, error kind) triples",
		Units:       c18Units,
		Need:        []string{"fault:db.Load", "fault:db.Save", "fault:db.Create", "fault:hasher.GenerateHash", "fault:renderer.Render", "fault:sms.Send", "fault:db.UseRememberToken", "fault:db.AddRememberToken", "fault:db.LoadByRecoverSelector", "fault:db.LoadByConfirmSelector", "fault:db.SaveOAuth2", "fault:db.DelRememberTokens"},
		Assumptions: []string{"faults are injected into ServerStorer and its upgrades, Hasher.GenerateHash, ViewRenderer and SMSSender; mailer and client-state store failures are not (the latter is documented to panic in WriteHeader)", "quick: single faults (one failing call per request); thorough: additionally every pair of failing calls within one request"},
	})
}
