package props

import (
	"bytes"
	"crypto/rand"
	"crypto/sha256"
	"encoding/hex"
	"encoding/json"
	"fmt"
	"github.com/volatiletech/authboss/v3"
	"net/url"
	"os"
	"os/exec"
	"path/filepath"
	"regexp"
	"sort"
	"strconv"
	"strings"
	"sync"
	"time"

	"verif/engine"
	"verif/flows"
	"verif/shim/vsched"
	"verif/shim/vtime"
	"verif/world"
)

// C20 — one configured instance serves concurrent requests without races or
// cross-talk.
//   (1) E5, exhaustive interleavings: client scripts run as logical threads
//       under the controlled scheduler; every schedule with at most 2
//       preemptions is executed; each client's transcript must equal the
//       transcript of the same script run alone; no deadlock; no two threads
//       inside the same tracked cell (math/rand generator of SMTPMailer).
//   (2) the same script bodies free-running under the Go race detector
//       (separate binary; a cooperative scheduler's hand-offs are
//       happens-before edges that would blind the detector).

type c20Script struct {
	name  string
	steps func(c *c20Client) // issues the requests of one client, in order
}

type c20Client struct {
	barrier func() // free-running mode: all clients start their k-th request together
	idx     int
	pid     string
	browser string
	s       *world.Stack
	w       *world.World
	sched   *engine.Sched // nil when free-running
	mu      *sync.Mutex   // guards w in free-running mode
	trace   []string
}

func (c *c20Client) do(rq world.Req) *world.Obs {
	if c.barrier != nil {
		c.barrier()
	}
	rq.Browser = c.browser
	o := c.s.DoConc(c.w, rq)
	loc := o.Location
	body := o.Body
	if len(body) > 300 {
		h := sha256.Sum256([]byte(body))
		body = body[:300] + "...#" + hex.EncodeToString(h[:8]) // the whole body counts
	}
	c.trace = append(c.trace, fmt.Sprintf("%s %s -> %d loc=%q body=%q sess=%v cookies=%d panic=%v", rq.Method, stripQueryValues(rq.Path), o.Status, stripQueryValues(loc), body, sortedKV(o.SessAfter), len(o.CookAfter), o.Panic != ""))
	return o
}

func stripQueryValues(s string) string { return s }

func sortedKV(m map[string]string) string {
	ks := keysOf(m)
	var sb strings.Builder
	for _, k := range ks {
		sb.WriteString(k + "=" + m[k] + ";")
	}
	return sb.String()
}

var c20BoundaryRe = regexp.MustCompile(`={15}[a-z0-9]{23}==`)

var c20URLRe = regexp.MustCompile(`http://site\.test/[^"\\\s<]+`)

// mailToken waits for a mail to this client's address containing a link whose
// path ends in suffix and returns the named query parameter.
func (c *c20Client) mailToken(suffix, param string) string {
	find := func() string {
		if c.mu != nil {
			c.mu.Lock()
			defer c.mu.Unlock()
		}
		for i := len(c.w.Mails) - 1; i >= 0; i-- {
			m := c.w.Mails[i]
			mine := false
			for _, to := range m.To {
				if to == c.pid {
					mine = true
				}
			}
			if !mine {
				continue
			}
			for _, u := range c20URLRe.FindAllString(m.Text+" "+m.HTML, -1) {
				u = strings.ReplaceAll(u, `&`, "&")
				if i := strings.IndexByte(u, '?'); i > 0 && strings.HasSuffix(u[:i], suffix) {
					for _, kv := range strings.Split(u[i+1:], "&") {
						if strings.HasPrefix(kv, param+"=") {
							v := strings.TrimPrefix(kv, param+"=")
							v = strings.NewReplacer("%3D", "=", "%2B", "+", "%2F", "/").Replace(v)
							return v
						}
					}
				}
			}
		}
		return ""
	}
	if c.sched != nil {
		c.sched.WaitUntil("mail:"+suffix, func() bool { return find() != "" })
	} else {
		for i := 0; i < 2000 && find() == ""; i++ {
			time.Sleep(time.Millisecond)
		}
	}
	return find()
}

func c20Scripts() []c20Script {
	return []c20Script{
		{"register-confirm-login", func(c *c20Client) {
			c.do(world.Req{Method: "GET", Path: "/auth/register", ForceForm: true})
			c.do(flows.Register(c.s, c.browser, map[string]string{"email": c.pid, "password": P3, "confirm_password": P3}))
			tok := c.mailToken("/confirm", "cnf")
			c.do(flows.Confirm(c.s, c.browser, tok))
			c.do(flows.Login(c.s, c.browser, c.pid, P3, false))
		}},
		{"login-rm-restart-open", func(c *c20Client) {
			// turned away first: the refusal redirect carries this client's own return target
			c.do(world.Req{Method: "GET", Path: "/app/prot?from=" + c.browser, ForceForm: true})
			c.do(flows.Login(c.s, c.browser, c.pid, P1, true))
			func() {
				if c.mu != nil {
					c.mu.Lock()
					defer c.mu.Unlock()
				}
				c.w.Browsers[c.browser].Session = map[string]string{}
			}()
			c.do(flows.Open(c.browser))
			c.do(flows.Full(c.browser))
		}},
		{"recover-start-end", func(c *c20Client) {
			c.do(world.Req{Method: "GET", Path: "/auth/recover", ForceForm: true})
			c.do(flows.RecoverStart(c.s, c.browser, c.pid))
			tok := c.mailToken("/recover/end", "token")
			c.do(flows.RecoverEnd(c.s, c.browser, "bm90LWEtdG9rZW4=", "Rec0vered!pw")) // a rejected submission first
			c.do(flows.RecoverEnd(c.s, c.browser, tok, "Rec0vered!pw"))
			c.do(flows.Login(c.s, c.browser, c.pid, "Rec0vered!pw", false))
		}},
		{"login-email-verify", func(c *c20Client) {
			c.do(flows.Login(c.s, c.browser, c.pid, P1, false))
			c.do(flows.VerifyStart(c.s, c.browser, "totp"))
			tok := c.mailToken("/email/verify/end", "token")
			c.do(flows.VerifyEnd(c.s, c.browser, "totp", tok))
			c.do(world.Req{Method: "GET", Path: "/auth/2fa/totp/setup", ForceForm: true})
			c.do(flows.TOTPSetup(c.s, c.browser))
		}},
		{"login-otp-add-logout-otp-login", func(c *c20Client) {
			c.do(flows.Login(c.s, c.browser, c.pid, P1, false))
			o := c.do(flows.OTPAdd(c.s, c.browser))
			otp, _ := o.JSON["otp"].(string)
			c.do(world.Req{Method: "GET", Path: "/auth/otp/add", ForceForm: true})
			c.do(flows.Logout(c.s, c.browser))
			c.do(flows.OTPLogin(c.s, c.browser, c.pid, otp, false))
		}},
		{"oauth2-start-callback", func(c *c20Client) {
			// the client passes a parameter of its own through the round trip; the provider identifies it by its index
			// (only every other client passes the extra parameter: what one client passes must not show up in another's redirect)
			q := "redir=%2Fhome%2F" + strconv.Itoa(c.idx)
			if c.idx%2 == 0 {
				q = "login_hint=" + url.QueryEscape(c.pid) + "&" + q
			}
			c.do(flows.OAuthStart(c.s, c.browser, "google", q))
			st := ""
			func() {
				if c.mu != nil {
					c.mu.Lock()
					defer c.mu.Unlock()
				}
				st = c.w.Browsers[c.browser].Session["oauth2_state"]
			}()
			c.do(flows.OAuthCallback(c.s, c.browser, "google", st, "c:client"+strconv.Itoa(c.idx), ""))
			c.do(flows.Open(c.browser))
		}},
	}
}

// c20NoRoot makes the next fixtures run without Paths.RootURL (race pass only).
var c20NoRoot bool

func c20Config(smtp bool) world.Config {
	if c20NoRoot {
		c := c20ConfigBase(smtp)
		c.RootURL = "-"
		return c
	}
	return c20ConfigBase(smtp)
}

func c20ConfigBase(smtp bool) world.Config {
	return world.Config{Modules: []string{"auth", "otp", "remember", "register", "confirm", "recover", "oauth2", "logout", "totp2fa", "recovery"},
		EmailAuthRequired: true, MailGoroutine: true, SMTPMailer: smtp, LogMailer: !smtp, RecoverLoginAfter: false, ModuleList: true, PerClientData: true, ProtFail: authboss.RespondRedirect, CustomFailures: true, RegisterWhitelist: []string{"email", "password", "name"}}
}

// c20Fixture builds a fresh instance and world for the given scripts.
func c20Fixture(smtp bool, scripts []c20Script) (*world.Stack, *world.World, []*c20Client) {
	s, err := world.NewStack(c20Config(smtp))
	if err != nil {
		panic(err)
	}
	s.Conc = true
	var names []string
	for i := range scripts {
		names = append(names, "B"+strconv.Itoa(i))
	}
	w := world.NewWorld(names...)
	s.W = w
	vtime.Set(w.Now)
	rand.Reader = world.ReaderOf(s)
	var cs []*c20Client
	for i, sc := range scripts {
		c := &c20Client{idx: i, pid: fmt.Sprintf("c%d@x.io", i), browser: names[i], s: s, w: w}
		if sc.name != "register-confirm-login" {
			s.RNGSel = func() int { return 1000 + i }
			flows.SeedAcct(s, w, flows.Acct{PID: c.pid, Password: P1})
		}
		cs = append(cs, c)
	}
	s.RNGSel = nil
	return s, w, cs
}

// c20Outcome is what one client observed plus its account's final rows.
func c20Outcome(c *c20Client) string {
	var sb strings.Builder
	for _, l := range c.trace {
		sb.WriteString(l + "\n")
	}
	r := c.w.DB.Users[c.pid]
	fmt.Fprintf(&sb, "row: confirmed=%v pw=%s otps=%d recsel=%v tokens=%d\n", r.Confirmed, plainOr(r.Password), otpCount(r), r.RecoverSelector != "", len(c.w.DB.Tokens[c.pid]))
	// the mails addressed to this client, byte for byte (random MIME boundaries normalised), and
	// the number of pieces of the mail stream that are not a whole mail to anybody
	n, torn := 0, 0
	for _, m := range c.w.Mails {
		if len(m.To) == 0 {
			torn++
		}
		for _, to := range m.To {
			if to == c.pid {
				n++
				h := sha256.Sum256([]byte(c20BoundaryRe.ReplaceAllString(m.Text+"\x00"+m.HTML, "BOUNDARY")))
				fmt.Fprintf(&sb, "mail#%d to=%v %s\n", n, m.To, hex.EncodeToString(h[:8]))
			}
		}
	}
	fmt.Fprintf(&sb, "mails=%d torn=%d\n", n, torn)
	return sb.String()
}

func plainOr(h string) string {
	if p, ok := world.PlainOf(h); ok {
		return "H(" + p + ")"
	}
	return h
}

// runUnder executes the scripts under the scheduler with the given prefix.
func c20RunUnder(smtp bool, scripts []c20Script, idxBase []int, prefix []int) (*engine.Sched, []string) {
	s, _, cs := c20Fixture(smtp, scripts)
	var names []string
	var bodies []func(*engine.Sched)
	for i, c := range cs {
		// the client's identity (account, browser, random stream) is fixed by idxBase so that a
		// solo run of client k is comparable with client k inside a multi-client run
		names = append(names, strconv.Itoa(idxBase[i]))
		sc := scripts[i]
		bodies = append(bodies, func(sd *engine.Sched) {
			c.sched = sd
			sc.steps(c)
		})
	}
	var sd *engine.Sched
	s.Point = func(label string) { vsched.Point(label) }
	s.RNGSel = func() int {
		if sd == nil {
			return 0
		}
		n, _ := strconv.Atoi(sd.CurRoot())
		return n
	}
	for i := range bodies {
		inner := bodies[i]
		bodies[i] = func(s2 *engine.Sched) {
			sd = s2
			inner(s2)
		}
	}
	s.NoteFn = func(a string) {
		if sd != nil {
			sd.Note(a)
		}
	}
	w := cs[0].w
	x := engine.RunScheduleKeyed(names, bodies, prefix, func() string { return c20WorldDigest(w) })
	var outs []string
	for _, c := range cs {
		outs = append(outs, c20Outcome(c))
	}
	return x, outs
}

// c20WorldDigest serialises the shared world exactly (random values are per-client deterministic
// under the scheduler, so no canonical renaming is needed).
func c20WorldDigest(w *world.World) string {
	var sb strings.Builder
	for _, pid := range w.DB.PIDs() {
		fmt.Fprintf(&sb, "%+v\n", w.DB.Users[pid])
	}
	for _, pid := range w.DB.PIDs2() {
		fmt.Fprintf(&sb, "T %s %v\n", pid, w.DB.Tokens[pid])
	}
	for _, b := range w.BrowserNames() {
		fmt.Fprintf(&sb, "B %s %s | %s\n", b, sortedKV(w.Browsers[b].Session), sortedKV(w.Browsers[b].Cookies))
	}
	for _, m := range w.Mails {
		fmt.Fprintf(&sb, "M %v %d\n", m.To, len(m.Text)+len(m.HTML))
	}
	h := sha256.Sum256([]byte(sb.String()))
	return hex.EncodeToString(h[:10])
}

// c20Pruned: ALL schedules of the scripts, no preemption bound, with global-state-key pruning.
func c20Pruned(smtp bool, pick []int, maxExec int, dl time.Time) engine.UnitResult {
	res := engine.UnitResult{Exhaustive: true, Distinct: map[string]bool{}, Cover: map[string]int{}}
	t0 := time.Now()
	all := c20Scripts()
	var scripts []c20Script
	for _, p := range pick {
		scripts = append(scripts, all[p])
	}
	idx := make([]int, len(scripts))
	for i := range idx {
		idx[i] = i
	}
	solo := make([]string, len(scripts))
	for i := range scripts {
		s, _, cs := c20Fixture(smtp, scripts)
		var sd *engine.Sched
		s.Point = func(label string) { vsched.Point(label) }
		s.RNGSel = func() int { n, _ := strconv.Atoi(sd.CurRoot()); return n }
		c := cs[i]
		engine.RunSchedule([]string{strconv.Itoa(i)}, []func(*engine.Sched){func(s2 *engine.Sched) { sd = s2; c.sched = s2; scripts[i].steps(c) }}, nil)
		solo[i] = c20Outcome(c)
	}
	sigSeen := map[string]bool{}
	var last []string
	decisions := 0
	outcomes := map[string]bool{}
	execs, states, capped := engine.ExploreSchedulesPruned(maxExec, func(prefix []int) *engine.Sched {
		if !dl.IsZero() && time.Now().After(dl) {
			return &engine.Sched{Diverged: "deadline"}
		}
		x, outs := c20RunUnder(smtp, scripts, idx, prefix)
		last = outs
		return x
	}, func(choices []int, x *engine.Sched) {
		if x.Diverged == "deadline" {
			res.Exhaustive, res.CapHit = false, "deadline"
			return
		}
		decisions += len(x.Points)
		sched := fmt.Sprint(choices)
		rep := func(rule, attrs, detail string) {
			if sigSeen[rule+attrs] {
				return
			}
			sigSeen[rule+attrs] = true
			res.Violations = append(res.Violations, engine.Violation{Rule: "C20/" + rule, Attrs: attrs, Detail: detail + " | schedule: " + sched, Path: []string{"scripts=" + scriptNames(scripts), "schedule=" + sched}})
		}
		if x.Deadlock != "" {
			rep("deadlock", "", "no enabled thread while unfinished: "+x.Deadlock)
		}
		for _, r := range x.Races {
			rep("unsynchronised-shared-object", "cell="+r.Cell, fmt.Sprintf("two logical threads were inside the same unsynchronised object at once: %s and %s", r.Label1, r.Label2))
		}
		for i := range scripts {
			if last != nil && last[i] != solo[i] {
				rep("cross-talk", "script="+scripts[i].name, fmt.Sprintf("client %d (%s) observed something different from its solo run: %s", i, scripts[i].name, firstDiff(solo[i], last[i])))
			}
		}
		outcomes[strings.Join(last, "|")] = true
	})
	if capped {
		res.Exhaustive, res.CapHit = false, fmt.Sprintf("max-executions=%d", maxExec)
	}
	res.States = states
	res.Transitions = decisions
	res.Validated = execs
	res.Evaluations = execs
	res.Cover["executions-pruned-pass"] = execs
	res.Cover["global-states-pruned-pass"] = states
	res.Samples = []interface{}{fmt.Sprintf("scripts=%s unbounded with state-key pruning: executions=%d global states=%d distinct joint outcomes=%d", scriptNames(scripts), execs, states, len(outcomes))}
	for i := 0; i < len(outcomes); i++ {
		res.Distinct[fmt.Sprintf("%s#pruned-outcome%d", scriptNames(scripts), i)] = true
	}
	res.WallS = time.Since(t0).Seconds()
	return res
}

func c20Interleavings(smtp bool, pick []int, bound, maxExec int, dl time.Time) engine.UnitResult {
	res := engine.UnitResult{Exhaustive: true, Distinct: map[string]bool{}, Cover: map[string]int{}}
	t0 := time.Now()
	all := c20Scripts()
	var scripts []c20Script
	for _, p := range pick {
		scripts = append(scripts, all[p])
	}
	// client identities: account / browser index == position; solo runs reuse the same position
	idx := make([]int, len(scripts))
	for i := range idx {
		idx[i] = i
	}
	// solo transcripts: the same fixture (all accounts exist), only one client runs
	solo := make([]string, len(scripts))
	for i := range scripts {
		s, _, cs := c20Fixture(smtp, scripts)
		var sd *engine.Sched
		s.Point = func(label string) { vsched.Point(label) }
		s.RNGSel = func() int { n, _ := strconv.Atoi(sd.CurRoot()); return n }
		c := cs[i]
		x := engine.RunSchedule([]string{strconv.Itoa(i)}, []func(*engine.Sched){func(s2 *engine.Sched) { sd = s2; c.sched = s2; scripts[i].steps(c) }}, nil)
		if x.Deadlock != "" {
			res.Violations = append(res.Violations, engine.Violation{Rule: "C20/deadlock", Attrs: "solo", Detail: "script " + scripts[i].name + " alone: " + x.Deadlock})
		}
		solo[i] = c20Outcome(c)
	}
	// determinism self-test: the same schedule twice gives identical observations
	_, o1 := c20RunUnder(smtp, scripts, idx, nil)
	_, o2 := c20RunUnder(smtp, scripts, idx, nil)
	if strings.Join(o1, "|") != strings.Join(o2, "|") {
		res.Violations = append(res.Violations, engine.Violation{Rule: "harness/nondeterminism", Detail: "replaying the default schedule twice gave different observations"})
		return res
	}
	sigSeen := map[string]bool{}
	var last []string
	decisions := 0
	execs, capped := engine.ExploreSchedules(bound, maxExec, func(prefix []int) *engine.Sched {
		if !dl.IsZero() && time.Now().After(dl) {
			return &engine.Sched{Diverged: "deadline"}
		}
		x, outs := c20RunUnder(smtp, scripts, idx, prefix)
		last = outs
		return x
	}, func(choices []int, x *engine.Sched) {
		if x.Diverged == "deadline" {
			res.Exhaustive, res.CapHit = false, "deadline"
			return
		}
		decisions += len(x.Points)
		sched := fmt.Sprint(choices)
		rep := func(rule, attrs, detail string) {
			if sigSeen[rule+attrs] {
				return
			}
			sigSeen[rule+attrs] = true
			res.Violations = append(res.Violations, engine.Violation{Rule: "C20/" + rule, Attrs: attrs, Detail: detail + " | schedule (choices at the decisions with more than one enabled thread): " + sched,
				Scen: "", Path: []string{"scripts=" + scriptNames(scripts), "schedule=" + sched}})
		}
		if x.Diverged != "" {
			rep("harness-divergence", "", x.Diverged)
		}
		if x.Deadlock != "" {
			rep("deadlock", "", "no enabled thread while unfinished: "+x.Deadlock)
		}
		for _, r := range x.Races {
			rep("unsynchronised-shared-object", "cell="+r.Cell, fmt.Sprintf("two logical threads were inside the same unsynchronised object at once: %s and %s", r.Label1, r.Label2))
		}
		for i := range scripts {
			if last != nil && last[i] != solo[i] {
				rep("cross-talk", "script="+scripts[i].name, fmt.Sprintf("client %d (%s) observed something different from its solo run: %s", i, scripts[i].name, firstDiff(solo[i], last[i])))
			}
		}
		res.Distinct[strings.Join(last, "|")] = true
	})
	if capped {
		res.Exhaustive, res.CapHit = false, fmt.Sprintf("max-executions=%d", maxExec)
	}
	res.States = len(res.Distinct)
	res.Transitions = decisions
	res.Validated = execs
	res.Evaluations = execs
	res.Cover["executions"] = execs
	res.Cover["preemption-bound"] = bound
	res.Samples = []interface{}{fmt.Sprintf("scripts=%s bound=%d executions=%d distinct-outcomes=%d", scriptNames(scripts), bound, execs, len(res.Distinct))}
	// outcomes are long strings: keep the count only
	n := len(res.Distinct)
	res.Distinct = map[string]bool{}
	for i := 0; i < n; i++ {
		res.Distinct[fmt.Sprintf("%s#outcome%d", scriptNames(scripts), i)] = true
	}
	res.WallS = time.Since(t0).Seconds()
	return res
}

func scriptNames(scripts []c20Script) string {
	var n []string
	for _, s := range scripts {
		n = append(n, s.name)
	}
	return strings.Join(n, "+")
}

// ---- (2) race pass: run by the -race binary, free-running

// C20RacePass is invoked as `harness-race racepass`: it runs every unordered
// pair of scripts (including a script with itself) concurrently on one
// instance, repeated, plus all scripts together. The race detector's reports go
// to stderr; the parent classifies them.
func C20RacePass(reps int) {
	all := c20Scripts()
	vtime.NoCount = true
	// rep 0 of every set: one shared world, the clients' k-th requests aligned by a barrier (requests
	// really overlap in time). Further reps: split mode - a private world and mutex per client, no
	// barrier, no shared wait group, the real crypto/rand: the harness then creates no happens-before
	// edge between two clients, so every pair of unordered conflicting accesses inside the library is
	// visible to the detector whether or not the accesses happen to overlap in time.
	runSet := func(smtp bool, pick []int, split bool) {
		var scripts []c20Script
		for _, p := range pick {
			scripts = append(scripts, all[p])
		}
		s, w, cs := c20Fixture(smtp, scripts)
		mu := &sync.Mutex{}
		s.FreeMu = mu
		var wg sync.WaitGroup
		spawn := func(f func()) {
			wg.Add(1)
			go func() { defer wg.Done(); f() }()
		}
		var bar *cyclicBarrier
		if split {
			rand.Reader = realRand
			s.Split = &world.Split{W: map[string]*world.World{}, Mu: map[string]*sync.Mutex{}, Addr: map[string]string{}}
			for _, c := range cs {
				c.w, c.mu = w.Clone(), &sync.Mutex{}
				s.Split.W[c.browser], s.Split.Mu[c.browser], s.Split.Addr[c.pid] = c.w, c.mu, c.browser
			}
			spawn = func(f func()) { go f() }
		} else {
			bar = newBarrier(len(cs))
			for _, c := range cs {
				c.mu, c.barrier = mu, bar.wait
			}
		}
		vsched.Install(&vsched.Hooks{Spawn: spawn})
		done := make([]chan struct{}, len(cs))
		for i, c := range cs {
			done[i] = make(chan struct{})
			go func() {
				defer close(done[i])
				if bar != nil {
					defer bar.leave()
				}
				scripts[i].steps(c)
			}()
		}
		for _, d := range done {
			<-d
		}
		wg.Wait()
		if split {
			time.Sleep(20 * time.Millisecond) // straggling mail goroutines
		}
		vsched.Install(nil)
	}
	for _, smtp := range []bool{false, true} {
		for i := range all {
			for j := i; j < len(all); j++ {
				for r := 0; r < reps; r++ {
					runSet(smtp, []int{i, j}, r > 0)
				}
			}
		}
		for r := 0; r < reps; r++ {
			runSet(smtp, []int{0, 1, 2, 3, 4}, r > 0)
		}
	}
	// a deployment without Paths.RootURL: two OAuth2 round trips and two remember scripts side by side
	c20NoRoot = true
	for r := 0; r < reps; r++ {
		runSet(false, []int{5, 5}, true)
		runSet(false, []int{1, 5}, true)
	}
	c20NoRoot = false
	fmt.Println("racepass done")
}

// realRand is the process's crypto/rand source, before any fixture replaces it.
var realRand = rand.Reader

// cyclicBarrier lines the clients' k-th requests up so that they really overlap.
type cyclicBarrier struct {
	mu    sync.Mutex
	n, at int
	gen   chan struct{}
}

func newBarrier(n int) *cyclicBarrier { return &cyclicBarrier{n: n, gen: make(chan struct{})} }

func (b *cyclicBarrier) wait() {
	b.mu.Lock()
	b.at++
	if b.at >= b.n {
		b.at = 0
		close(b.gen)
		b.gen = make(chan struct{})
		b.mu.Unlock()
		return
	}
	g := b.gen
	b.mu.Unlock()
	select {
	case <-g:
	case <-time.After(200 * time.Millisecond):
	}
}

func (b *cyclicBarrier) leave() {
	b.mu.Lock()
	b.n--
	if b.n > 0 && b.at >= b.n {
		b.at = 0
		close(b.gen)
		b.gen = make(chan struct{})
	}
	b.mu.Unlock()
}

func c20RaceUnit(reps int) engine.Unit {
	return engine.Unit{Name: "race-detector-pass", Run: func(dl time.Time) engine.UnitResult {
		res := engine.UnitResult{Exhaustive: true, Distinct: map[string]bool{}, Cover: map[string]int{}}
		t0 := time.Now()
		root := os.Getenv("VERIF_ROOT")
		if root == "" {
			root = "/verif"
		}
		bin := filepath.Join(root, ".cache", "bin", "harness-race")
		cmd := exec.Command(bin, "racepass", strconv.Itoa(reps))
		cmd.Env = append(os.Environ(), "GORACE=halt_on_error=0 history_size=3")
		var out, errb bytes.Buffer
		cmd.Stdout, cmd.Stderr = &out, &errb
		err := cmd.Run()
		reports := strings.Split(errb.String(), "==================")
		n := 0
		seen := map[string]bool{}
		for _, rep := range reports {
			if !strings.Contains(rep, "WARNING: DATA RACE") {
				continue
			}
			n++
			// Who owns each of the two racing accesses? Walk both stacks from the top, skipping the
			// standard library and the pass-through shims: the first remaining frame decides.
			var lib []string
			harnessOwned := false
			repoDir := os.Getenv("VERIF_REPO")
			if repoDir == "" {
				repoDir = "/repo"
			}
			for _, stack := range strings.Split(rep, "\n\n") {
				if !(strings.Contains(stack, " at 0x") && (strings.Contains(stack, "by goroutine") || strings.Contains(stack, "by main goroutine"))) {
					continue
				}
				lines := strings.Split(stack, "\n")[1:]
				for li := 0; li+1 < len(lines); li += 2 {
					fn := strings.TrimSpace(lines[li])
					file := strings.TrimSpace(lines[li+1])
					if fn == "" {
						break
					}
					switch {
					case strings.HasPrefix(file, repoDir+"/"):
						// the racing access (or the nearest non-library-of-Go caller) is in authboss source
						site := file
						if i := strings.Index(site, " "); i > 0 {
							site = site[:i]
						}
						if j := strings.LastIndex(site, ":"); j > 0 {
							site = site[:j]
						}
						lib = append(lib, strings.TrimPrefix(site, repoDir+"/"))
					case strings.Contains(file, "/harness/shim/"):
						continue
					case strings.Contains(file, "/harness/"):
						harnessOwned = true
					default:
						continue // standard library / third party: keep walking towards the caller
					}
					break
				}
			}
			sort.Strings(lib)
			key := "harness"
			if len(lib) > 0 && !harnessOwned {
				key = lib[0]
			} else {
				lib = nil
			}
			if strings.Contains(rep, "verif/shim/vmrand") && len(lib) > 0 {
				key = "math/rand.Rand used by " + key
			}
			if seen[key] {
				continue
			}
			seen[key] = true
			if len(lib) == 0 {
				// a race between two harness accesses says nothing about authboss: it is counted in the
				// evidence (and printed by the worker), never turned into a verdict
				res.Cover["harness-owned-race-reports"]++
				fmt.Fprintln(os.Stderr, "NOTE: race report owned by the harness (ignored):", firstLineOf(strings.TrimSpace(strings.TrimPrefix(strings.TrimSpace(rep), "WARNING: DATA RACE"))))
				continue
			}
			res.Violations = append(res.Violations, engine.Violation{Rule: "C20/data-race", Attrs: "site=" + key,
				Detail: "the Go race detector reported a data race in library code while two requests ran concurrently: " + trunc(strings.TrimSpace(rep), 1800), Scen: "race-detector-pass", Path: []string{"harness-race racepass"}})
		}
		if err != nil && n == 0 {
			res.Violations = append(res.Violations, engine.Violation{Rule: "harness/racepass-failed", Detail: err.Error() + ": " + trunc(errb.String(), 800)})
		}
		np := len(c20Scripts()) * (len(c20Scripts()) + 1) / 2
		pairs := np*2 + 2 + 2
		res.Evaluations = pairs * reps
		res.Cover["race-pass-runs"] = pairs * reps
		res.Cover["race-reports"] = n
		res.Distinct["race-pass:log-mailer"], res.Distinct["race-pass:smtp-mailer"] = true, true
		res.Samples = []interface{}{fmt.Sprintf("%d unordered script pairs (incl. self pairs) + five together, x2 mailers, x%d repetitions, free-running under -race: %d reports", np, reps, n)}
		res.WallS = time.Since(t0).Seconds()
		return res
	}}
}

func init() {
	engine.Register(&engine.Property{
		ID: "C20", Level: "model_checking",
		Rule: "E5: every unordered pair (thorough: also triples) of six client scripts (register>confirm>login, login(rm)>restart>open, recover start>end, login>e-mail verify, login>otp add>logout>otp login, OAuth2 start>callback with a pass-through parameter), each client on its own account and browser, mail goroutines as threads of their own, with the shipped defaults.LogMailer (every Write of its stream a scheduling point) and with defaults.SMTPMailer; ALL schedules with at most 1 (quick) / 2 (thorough) preemptions at the harness seams are executed on the real instance, and in a second pass EVERY schedule without a preemption bound, pruned on a global state key (shared world + every thread's position and the hash of all environment answers it has received); oracle: per-client transcript (responses, session, own rows, and the mails addressed to the client byte for byte) equals the solo run, no torn mail, no deadlock, no two threads inside SMTPMailer's math/rand generator; plus the same bodies free-running under the Go race detector; states = distinct joint outcomes, transitions = scheduling decisions, traces validated = executed schedules",
		Units: func(tier string) []engine.Unit {
			var us []engine.Unit
			n := len(c20Scripts())
			maxExec := 60000
			for _, smtp := range []bool{false, true} {
				for i := 0; i < n; i++ {
					for j := i; j < n; j++ {
						bound := 2
						if tier != "thorough" {
							// quick: every pair with at most 1 preemption (three short pairs with 2) on the plain mailer;
							// three mail-heavy pairs with at most 1 preemption on the SMTP mailer
							bound = 1
							if smtp && !(i == 0 && j == 2 || i == 2 && j == 3 || i == 0 && j == 0) {
								continue
							}
							if !smtp && (i == 1 && j == 4 || i == 1 && j == 1 || i == 4 && j == 4) {
								bound = 2
							}
						}
						pick := []int{i, j}
						us = append(us, engine.Unit{Name: fmt.Sprintf("pair(%d,%d),smtp=%v,bound=%d", i, j, smtp, bound), Run: func(dl time.Time) engine.UnitResult {
							return c20Interleavings(smtp, pick, bound, maxExec, dl)
						}})
					}
				}
			}
			if tier == "thorough" {
				for _, tr := range [][]int{{0, 2, 3}, {0, 1, 4}, {2, 2, 3}, {0, 0, 2}} {
					us = append(us, engine.Unit{Name: fmt.Sprintf("triple%v,smtp=true,bound=2", tr), Run: func(dl time.Time) engine.UnitResult {
						return c20Interleavings(true, tr, 2, 60000, dl)
					}})
				}
			}
			// second pass: EVERY schedule (no preemption bound) with global-state-key pruning - all pairs
			// in both tiers; with the SMTP mailer and for triples in the thorough tier
			for i := 0; i < n; i++ {
				for j := i; j < n; j++ {
					pr := []int{i, j}
					us = append(us, engine.Unit{Name: fmt.Sprintf("pruned-unbounded%v,smtp=false", pr), Run: func(dl time.Time) engine.UnitResult {
						return c20Pruned(false, pr, 200000, dl)
					}})
					if tier == "thorough" {
						us = append(us, engine.Unit{Name: fmt.Sprintf("pruned-unbounded%v,smtp=true", pr), Run: func(dl time.Time) engine.UnitResult {
							return c20Pruned(true, pr, 400000, dl)
						}})
					}
				}
			}
			if tier == "thorough" {
				for _, tr := range [][]int{{0, 2, 3}, {0, 1, 4}, {1, 1, 4}, {0, 0, 2}, {2, 3, 4}} {
					us = append(us, engine.Unit{Name: fmt.Sprintf("pruned-unbounded%v,smtp=false", tr), Run: func(dl time.Time) engine.UnitResult {
						return c20Pruned(false, tr, 600000, dl)
					}})
				}
			}
			reps := 5
			if tier == "thorough" {
				reps = 20
			}
			us = append(us, c20RaceUnit(reps))
			return us
		},
		Assumptions: []string{"scheduling points are the harness seams (every storer method, mailer / SMTP delivery, SMS, client-state read and write, tracked-cell accesses, mutexes, goroutine spawn); memory orderings below that granularity are the race detector's part", "the race detector's verdict is happens-before based; pairs are repeated to defeat shadow-cell eviction, not to sample schedules", "clients act on distinct accounts and browsers"},
	})
}

var _ = json.Marshal
