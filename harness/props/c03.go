package props

import (
	"fmt"
	"time"

	"github.com/volatiletech/authboss/v3"
	"verif/engine"
	"verif/flows"
	"verif/world"
)

// C03 — locked or unconfirmed accounts cannot complete a login or use
// protected routes. E1; oracle: (i) a login-flow request that newly sets
// uid=X requires X not locked / confirmed in the PRE-state at the request's
// instant; (ii) the handler behind lock.Middleware / confirm.Middleware only
// runs for a session user that is not locked / is confirmed.

var driftShown int

var c03LoginKinds = map[string]bool{"login": true, "otplogin": true, "oauth_cb": true, "recover_end": true, "totp_validate": true, "sms_validate": true}

func lockedAt(r world.Row, now time.Time) bool { return r.Locked.After(now) }

func c03Monitor(st *engine.Step) {
	o := st.Obs
	if o == nil {
		return
	}
	cfg := &st.S.Cfg
	u, u2 := o.UIDBefore(), o.UIDAfter()
	kind := o.Req.Tag.Kind
	if u2 != "" && u2 != u && c03LoginKinds[kind] {
		if r, ok := st.Pre.DB.Users[u2]; ok {
			// "locked" is decided by the reference automaton (C04), not by what storage
			// says: a change that wipes a running lock from storage must not hide it.
			if m := c04Get(st.Pre.Truth, u2); cfg.Has("lock") && (lockedAt(r, st.Pre.Now) || m.lockedUntil.After(st.Pre.Now)) {
				st.Report(engine.Violation{Rule: "C03/locked-account-logged-in", Attrs: "kind=" + kind,
					Detail: fmt.Sprintf("%s request ended with a session for %s although the account was locked until %s (now %s)", kind, u2, r.Locked.Format(time.RFC3339), st.Pre.Now.Format(time.RFC3339))})
			}
			if cfg.Has("confirm") && !r.Confirmed {
				st.Report(engine.Violation{Rule: "C03/unconfirmed-account-logged-in", Attrs: "kind=" + kind,
					Detail: fmt.Sprintf("%s request ended with a session for %s although the account was not confirmed", kind, u2)})
			}
		}
	}
	if o.Probe != nil && o.Probe.Ran && (o.Probe.Which == "prot" || o.Probe.Which == "guard") {
		who := o.Probe.UserPID
		if who == "" {
			who = o.UIDBefore()
		}
		if r, ok := st.Pre.DB.Users[who]; ok {
			if m := c04Get(st.Pre.Truth, who); cfg.Has("lock") && (lockedAt(r, st.Pre.Now) || m.lockedUntil.After(st.Pre.Now)) {
				st.Report(engine.Violation{Rule: "C03/middleware-passed-locked-user", Detail: "lock.Middleware passed a request of locked user " + who})
			}
			if cfg.Has("confirm") && !r.Confirmed {
				st.Report(engine.Violation{Rule: "C03/middleware-passed-unconfirmed-user", Detail: "confirm.Middleware passed a request of unconfirmed user " + who})
			}
		}
	}
}

func c03Cover(st *engine.Step) []string {
	o := st.Obs
	if o == nil {
		return nil
	}
	var c []string
	u, u2 := o.UIDBefore(), o.UIDAfter()
	kind := o.Req.Tag.Kind
	if u2 != "" && u2 != u && c03LoginKinds[kind] {
		c = append(c, "login-ok:"+kind)
	}
	for pid, r := range st.Post.DB.Users {
		m := c04Get(st.Post.Truth, pid)
		if !m.lockedUntil.Equal(st.Post.Now) && m.lockedUntil.After(st.Post.Now) != lockedAt(r, st.Post.Now) {
			c = append(c, "DRIFT:model-storage-lock-disagree:"+kind)
			if driftShown < 6 {
				driftShown++
				fmt.Fprintf(logw, "DRIFT %s after %v + %s: pid=%s model=%+v storage count=%d last=%v locked=%v now=%v\n", st.S.Cfg.Name, st.Path, st.Act.Name, pid, m, r.AttemptCount, r.LastAttempt, r.Locked, st.Post.Now)
			}
		}
	}
	if c03LoginKinds[kind] && u2 == u {
		subj := o.Req.Tag.PID
		if kind == "totp_validate" {
			subj = o.SessBefore["totp_pending"]
		}
		if kind == "sms_validate" {
			subj = o.SessBefore["sms_pending"]
		}
		if kind == "oauth_cb" && len(o.Req.Tag.Code) > 2 {
			subj = authboss.MakeOAuth2PID(o.Req.Tag.Provider, o.Req.Tag.Code[2:])
		}
		if kind == "recover_end" {
			if sec := st.Pre.Truth.ByVal("rtok", o.Req.Tag.Secret); sec != nil {
				subj = sec.Owner
			}
		}
		if r, ok := st.Pre.DB.Users[subj]; ok {
			if lockedAt(r, st.Pre.Now) {
				c = append(c, "refused-while-locked:"+kind)
			}
			if !r.Confirmed {
				c = append(c, "refused-while-unconfirmed:"+kind)
			}
		}
	}
	if kind == "guard" {
		f := ""
		if len(o.FaultFired) > 0 {
			f = "+fault"
		}
		if o.Probe != nil && o.Probe.Ran {
			c = append(c, "guard:ran"+f)
		} else {
			c = append(c, "guard:refused"+f)
		}
	}
	if kind == "prot" {
		if o.Probe != nil && o.Probe.Ran {
			c = append(c, "prot:ran")
		} else if u != "" {
			c = append(c, "prot:refused-with-user")
		}
	}
	return c
}

func c03Scenarios(tier string) []engine.Scenario {
	depth := 4
	if tier == "thorough" {
		depth = 5
	}
	oauthPID := authboss.MakeOAuth2PID("google", "7")
	var out []engine.Scenario
	type variant struct {
		name  string
		mods  []string
		fa    string // "", totp, sms
		oauth bool
		after int // 0 = LockAfter 2; -1 = LockAfter explicitly 0 (the library then locks at the first failure, as with 1)
	}
	base := func(order string) []string {
		if order == "lc" {
			return []string{"auth", "otp", "recover", "lock", "confirm"}
		}
		return []string{"auth", "otp", "recover", "confirm", "lock"}
	}
	var variants []variant
	orders := []string{"lc"}
	if tier == "thorough" {
		orders = []string{"lc", "cl"}
	}
	for _, ord := range orders {
		variants = append(variants,
			variant{"plain-" + ord, append(base(ord), "logout"), "", false, 0},
			variant{"totp-" + ord, append(base(ord), "totp2fa", "recovery", "logout"), "totp", false, 0},
			variant{"sms-" + ord, append(base(ord), "sms2fa", "recovery", "logout"), "sms", false, 0},
			variant{"oauth-" + ord, append(base(ord), "oauth2", "logout"), "", true, 0},
		)
	}
	if tier == "thorough" {
		variants = append(variants, variant{"sms-totp-lc", append(base("lc"), "sms2fa", "totp2fa", "recovery", "logout"), "totp", false, 0},
			variant{"totp-sms-lc", append(base("lc"), "totp2fa", "sms2fa", "recovery", "logout"), "sms", false, 0})
	}
	// LockAfter = 0: a legitimate (if unusual) setting; manual locks must be honoured all the same
	variants = append(variants, variant{"oauth-lockafter0", append(base("lc"), "oauth2", "logout"), "", true, -1})
	for _, v := range variants {
		v := v
		sc := engine.Scenario{
			Name: v.name, Depth: depth, Sat: 2 * time.Hour,
			Cfg: world.Config{Modules: v.mods, RecoverLoginAfter: true, LockAfter: map[int]int{0: 2, -1: -1}[v.after], LockWindow: 5 * time.Minute, LockDuration: time.Hour, ProtFail: authboss.RespondRedirect},
			Init: func(s *world.Stack) *world.World {
				w := world.NewWorld("B1", "B2")
				l := flows.Acct{PID: U1, Password: P1, OTPs: []string{"11111111-22222222-33333333-44444444"}}
				p := flows.Acct{PID: U2, Password: P2, Unconfirmed: true, OTPs: []string{"aaaaaaaa-bbbbbbbb-cccccccc-dddddddd"}}
				switch v.fa {
				case "totp":
					l.TOTPSecret, l.RecoveryCodes = flows.TOTPSecrets[0], []string{"aaaaa-11111"}
					p.TOTPSecret = flows.TOTPSecrets[1]
				case "sms":
					l.SMSNumber, l.RecoveryCodes = N1, []string{"aaaaa-11111"}
					p.SMSNumber = N2
				}
				flows.SeedAcct(s, w, l)
				flows.SeedAcct(s, w, p)
				if v.oauth {
					w.DB.Users[oauthPID] = world.Row{PID: oauthPID, Email: "o@provider.test", OAuth2UID: "7", OAuth2Provider: "google", Confirmed: true}
				}
				return w
			},
			Monitor: c03Monitor, Cover: c03Cover,
			Model: c04ModelStep(c04cfg{map[int]int{0: 2, -1: 1}[v.after], 5 * time.Minute, time.Hour}),
		}
		sc.Actions = func(s *world.Stack, w *world.World) []engine.Action {
			var a []engine.Action
			accounts := []string{U1, U2}
			b := "B1"
			// B1: every login path, right and wrong
			for _, pid := range accounts {
				pid := pid
				p, _ := curPassword(w, pid)
				for _, c := range []cand{{"pw:cur", p}, {"pw:wrong", "wrong-" + p}} {
					c := c
					a = append(a, flows.A(fmt.Sprintf("login(%s,%s,%s)", b, short(pid), c.note), func(s *world.Stack, _ *world.World) world.Req {
						r := flows.Login(s, b, pid, c.val, false)
						r.Tag.Note = c.note
						return r
					}, ""))
				}
			}
			a = append(a, otpLoginActs(w, b, accounts, nil, false)...)
			a = append(a, flows.A("otplogin(B1,u1,otp:wrong)", func(s *world.Stack, _ *world.World) world.Req {
				r := flows.OTPLogin(s, b, U1, "00000000-00000000-00000000-00000000", false)
				r.Tag.Note = "otp:wrong"
				return r
			}, ""))
			if v.fa != "" {
				a = append(a, twofaValidateActs(s, w, b, accounts, []string{N1, N2}, false)...)
			}
			a = append(a, flows.A("recover-start(B1,u1)", func(s *world.Stack, _ *world.World) world.Req { return flows.RecoverStart(s, b, U1) }, U1))
			a = append(a, flows.A("recover-start(B1,u2)", func(s *world.Stack, _ *world.World) world.Req { return flows.RecoverStart(s, b, U2) }, U2))
			for _, o := range accounts {
				if sec := w.Truth.Newest("rtok", o, false); sec != nil {
					o, tok := o, sec.Val
					a = append(a, flows.A(fmt.Sprintf("recover-end(B1,rtok:live(%s))", short(o)), func(s *world.Stack, _ *world.World) world.Req {
						r := flows.RecoverEnd(s, b, tok, P3)
						r.Tag.Note = "rtok:live"
						return r
					}, ""))
				}
			}
			if v.oauth {
				a = append(a, flows.A("oauth-start(B1,google)", func(s *world.Stack, _ *world.World) world.Req { return flows.OAuthStart(s, b, "google", "") }, ""))
				if stt := w.Browsers[b].Session["oauth2_state"]; stt != "" {
					a = append(a, flows.A("oauth-cb(B1,google,state:own,code=c:7)", func(s *world.Stack, _ *world.World) world.Req {
						r := flows.OAuthCallback(s, b, "google", stt, "c:7", "")
						r.Tag.Note = "state:own"
						return r
					}, ""))
				}
				a = append(a, flows.AdminLock(oauthPID), flows.AdminStartConfirm(oauthPID))
			}
			a = append(a, confirmActs(w, b, []string{U2, oauthPID})...)
			a = append(a, simple("prot(B1)", func(s *world.Stack) world.Req { return flows.Prot(b) }))
			if w.Browsers[b].Session["uid"] != "" {
				// the two middlewares on their own (they load the session user themselves), fault-free
				// and with that load failing: a backend failure must not open the route
				a = append(a, simple("guard(B1)", func(s *world.Stack) world.Req { return flows.Guard(b) }))
				a = append(a, flows.AFault("guard(B1)", "db.Load", func(s *world.Stack, _ *world.World) world.Req { return flows.Guard(b) }))
				// the pages the middlewares redirect to, when they are behind the middlewares themselves
				a = append(a, simple("guard(B1,OPTIONS-preflight)", func(s *world.Stack) world.Req {
					r := flows.Guard(b)
					r.Method, r.Header = "OPTIONS", map[string]string{"Access-Control-Request-Method": "POST", "Origin": "https://app.example"}
					return r
				}))
				a = append(a, simple("guard(B1,at=ConfirmNotOK)", func(s *world.Stack) world.Req { return flows.GuardAt(b, s.AB.Config.Paths.ConfirmNotOK) }))
				a = append(a, simple("guard(B1,at=LockNotOK)", func(s *world.Stack) world.Req { return flows.GuardAt(b, s.AB.Config.Paths.LockNotOK) }))
			}
			a = append(a, simple("logout(B1)", func(s *world.Stack) world.Req { return flows.Logout(s, b) }))
			// B2: another client failing logins against L, and probing
			a = append(a, flows.A("login(B2,u1,pw:wrong)", func(s *world.Stack, _ *world.World) world.Req {
				r := flows.Login(s, "B2", U1, "nope", false)
				r.Tag.Note = "pw:wrong"
				return r
			}, ""))
			// administrator and time
			a = append(a, flows.AdminLock(U1), flows.AdminUnlock(U1), flows.AdminStartConfirm(U2), flows.AdminStartConfirm(U1))
			a = append(a, waitActs(time.Hour-time.Second, 2*time.Second)...)
			return a
		}
		sc.Need = []string{"refused-while-locked:login", "refused-while-unconfirmed:login", "prot:ran", "prot:refused-with-user", "guard:ran", "guard:refused", "guard:refused+fault"}
		if v.fa == "" {
			sc.Need = append(sc.Need, "login-ok:login")
		}
		if v.fa == "totp" {
			sc.Need = append(sc.Need, "login-ok:totp_validate")
		}
		if v.fa == "sms" {
			sc.Need = append(sc.Need, "login-ok:sms_validate")
		}
		if v.oauth {
			sc.Need = append(sc.Need, "login-ok:oauth_cb", "refused-while-locked:oauth_cb")
		}
		out = append(out, sc)
	}
	return out
}

func init() {
	engine.Register(&engine.Property{
		ID: "C03", Level: "model_checking",
		Rule: "E1 over all login paths (password, OTP, OAuth2, recover-and-login, both 2FA steps) x lock/confirm state changes (failures, admin lock/unlock, re-started confirmation, lock expiry) in both handler orders; classes = login kinds completed and refused while locked/unconfirmed",
		Units: func(tier string) []engine.Unit {
			scs := c03Scenarios(tier)
			return e1Units(append(scs, configVariants(scs[:4], tier, "faults", "err500", "nil-state")...))
		},
		Assumptions: []string{"lock.Middleware / confirm.Middleware are placed behind authboss.Middleware2 as the README recommends", "bounded depth, 2-3 accounts, 2 browsers"},
	})
}
