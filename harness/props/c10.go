package props

import (
	"fmt"
	"sort"
	"strings"
	"time"

	"github.com/volatiletech/authboss/v3"
	"verif/engine"
	"verif/flows"
	"verif/world"
)

// C10 — logout leaves nothing behind that could authenticate or continue a
// login. E1 (single browser) collects every reachable session shape with all
// modules loaded; from every distinct state a logout is sent on a clone with
// the configured method (and, separately, with the two other methods).

func keysOf(m map[string]string) []string {
	ks := make([]string, 0, len(m))
	for k := range m {
		ks = append(ks, k)
	}
	sort.Strings(ks)
	return ks
}

func c10State(st *engine.Step) {
	w := st.Post
	s := st.S
	b := "B1"
	shape := strings.Join(keysOf(w.Browsers[b].Session), ",")
	wl := map[string]bool{}
	for _, k := range s.Cfg.Whitelist {
		wl[k] = true
	}
	configured := s.AB.Config.Modules.LogoutMethod
	// the configured method is evaluated twice: fault-free, and with the handler's own user lookup failing
	// (the only db.Load a logout request performs: the remember and expire middlewares never load a user)
	for _, m := range []string{"GET", "POST", "DELETE", "HEAD", "PUT", "PATCH", "OPTIONS", "GET+_method", "POST+_method", "fault:db.Load"} {
		cl := w.Clone()
		rq := flows.Logout(s, b)
		rq.Method = m
		if strings.HasSuffix(m, "+_method") {
			// a method-override parameter naming the configured method (query for GET, form field for POST)
			m = strings.TrimSuffix(m, "+_method")
			if m == configured {
				continue
			}
			rq.Method = m
			if m == "GET" {
				rq.Path += "?_method=" + configured
			} else {
				rq.Form, rq.ForceForm = map[string]string{"_method": configured}, true
				rq.Header = map[string]string{"X-HTTP-Method-Override": configured}
			}
		}
		faulted := strings.HasPrefix(m, "fault:")
		if faulted {
			m = configured
			rq.Method = m
			s.FaultLabel = "db.Load"
		}
		o := flows.Exec(s, cl, rq, "")
		s.FaultLabel = ""
		if faulted {
			if len(o.FaultFired) == 0 {
				continue
			}
			shape += ",!fault(db.Load)"
			st.Count(1, "logout:user-lookup-fails")
		} else {
			st.Count(1, "logout:"+map[bool]string{true: "configured-method", false: "other-method"}[m == configured])
		}
		if m != configured {
			// only the remember middleware may act (it runs for every request); the logout handler must not
			if o.Status != 404 && o.Status != 405 {
				st.Report(engine.Violation{Rule: "C10/logout-reacts-to-other-method", Attrs: "method=" + m + ",configured=" + configured,
					Detail: fmt.Sprintf("logout is configured for %s but a %s request was answered with %d", configured, m, o.Status)})
			}
			if o.CookBefore["rm"] != "" && o.UIDBefore() != "" && o.CookAfter["rm"] == "" {
				st.Report(engine.Violation{Rule: "C10/logout-reacts-to-other-method", Attrs: "method=" + m + ",configured=" + configured, Detail: "a request with a non-configured method removed the remember cookie"})
			}
			if o.UIDBefore() != "" && o.UIDAfter() == "" && !s.Cfg.Has("expire") {
				st.Report(engine.Violation{Rule: "C10/logout-reacts-to-other-method", Attrs: "method=" + m + ",configured=" + configured, Detail: "a request with a non-configured method logged the user out"})
			}
			continue
		}
		if o.Panic != "" || o.ErrLog != "" {
			st.Report(engine.Violation{Rule: "C10/logout-failed", Attrs: "shape=" + shape, Detail: "logout did not complete: " + firstLineOf(o.Panic+o.ErrLog)})
			continue
		}
		for k, v := range o.SessAfter {
			if wl[k] || k == authboss.FlashSuccessKey || k == authboss.FlashErrorKey {
				continue
			}
			st.Report(engine.Violation{Rule: "C10/session-value-survives-logout", Attrs: "key=" + k,
				Detail: fmt.Sprintf("after logout the session still holds %s=%s (session shape before: %s)", k, flows.Label(v), shape)})
		}
		for k, v := range o.SessBefore {
			if wl[k] && o.SessAfter[k] != v {
				st.Report(engine.Violation{Rule: "C10/whitelisted-key-lost", Attrs: "key=" + k, Detail: "logout removed or changed the whitelisted session key " + k})
			}
		}
		if c := o.CookAfter["rm"]; c != "" {
			st.Report(engine.Violation{Rule: "C10/remember-cookie-survives-logout", Attrs: "had-session-user=" + fmt.Sprint(o.UIDBefore() != ""),
				Detail: fmt.Sprintf("after logout the browser still holds a remember cookie (session shape before: %s; cookie before: %v)", shape, o.CookBefore["rm"] != "")})
		}
		// the browser's next request is unauthenticated
		o2 := flows.Exec(s, cl, flows.Open(b), "")
		if o2.UIDAfter() != "" || (o2.Probe != nil && (o2.Probe.PID != "" || o2.Probe.UserPID != "")) {
			st.Report(engine.Violation{Rule: "C10/next-request-authenticated", Attrs: "shape=" + shape, Detail: "the request following a logout is authenticated as " + o2.UIDAfter()})
		}
		o3 := flows.Exec(s, cl, flows.Prot(b), "")
		if o3.Probe != nil && o3.Probe.Ran {
			st.Report(engine.Violation{Rule: "C10/next-request-authenticated", Attrs: "route=protected", Detail: "a protected route served the request following a logout"})
		}
		// a pending second-factor login cannot be continued
		for _, rq := range []world.Req{flows.TOTPValidate(s, b, flows.TOTPCode(cl, flows.TOTPSecrets[1], 0), ""), flows.SMSValidate(s, b, cl.Browsers[b].Session["sms_secret"], "")} {
			cl2 := cl.Clone()
			o4 := flows.Exec(s, cl2, rq, "")
			if o4.UIDAfter() != "" {
				st.Report(engine.Violation{Rule: "C10/pending-login-continued-after-logout", Detail: "a second-factor validation after logout produced a session for " + o4.UIDAfter()})
			}
		}
	}
}

func c10Cover(st *engine.Step) []string {
	ks := keysOf(st.Post.Browsers["B1"].Session)
	var c []string
	c = append(c, "shape:"+strings.Join(ks, ","))
	ses := st.Post.Browsers["B1"].Session
	switch {
	case ses["uid"] != "" && ses["halfauth"] != "":
		c = append(c, "kind:half-authed")
	case ses["uid"] != "" && ses["twofactor"] != "":
		c = append(c, "kind:logged-in-2fa")
	case ses["uid"] != "":
		c = append(c, "kind:logged-in")
	}
	if ses["totp_pending"] != "" {
		c = append(c, "kind:mid-2fa-totp")
	}
	if ses["sms_pending"] != "" {
		c = append(c, "kind:mid-2fa-sms")
	}
	if ses["totp_secret"] != "" {
		c = append(c, "kind:mid-setup-totp")
	}
	if ses["sms_number"] != "" {
		c = append(c, "kind:mid-setup-sms")
	}
	if ses["oauth2_state"] != "" {
		c = append(c, "kind:mid-oauth2")
	}
	if ses["twofactor_auth_token"] != "" {
		c = append(c, "kind:mid-email-verify")
	}
	if ses["twofactor_authed"] != "" {
		c = append(c, "kind:email-authorised")
	}
	if ses["uid"] == "" && st.Post.Browsers["B1"].Cookies["rm"] != "" {
		c = append(c, "kind:cookie-only")
	}
	if ses["theme"] != "" {
		c = append(c, "kind:app-keys")
	}
	return c
}

func c10Scenarios(tier string) []engine.Scenario {
	depth := 5
	if tier == "thorough" {
		depth = 6
	}
	var out []engine.Scenario
	whitelists := [][]string{nil, {"theme"}, {"theme", "cart"}}
	methods := []string{"DELETE", "GET", "POST"}
	for wi, wl := range whitelists {
		for mi, method := range methods {
			for _, useExpire := range []bool{false, true} {
				if tier != "thorough" && (wi+mi)%3 != 0 {
					continue // quick: a Latin-square third of the (whitelist, method) grid
				}
				if useExpire && (tier != "thorough" && wi != 1) {
					continue
				}
				mods := []string{"auth", "otp", "oauth2", "recover", "register", "logout", "totp2fa", "sms2fa", "recovery"}
				if useExpire {
					mods = append([]string{"expire"}, mods...)
				} else {
					mods = append(mods, "remember")
				}
				sc := engine.Scenario{
					Name:  fmt.Sprintf("whitelist=%v,method=%s,expire=%v", wl, method, useExpire),
					Depth: depth,
					Cfg:   world.Config{Modules: mods, Whitelist: wl, LogoutMethod: method, EmailAuthRequired: true, ExpireAfter: time.Minute, ProtFail: authboss.RespondNotFound},
					Init: func(s *world.Stack) *world.World {
						w := world.NewWorld("B1")
						flows.SeedAcct(s, w, flows.Acct{PID: U1, Password: P1})
						flows.SeedAcct(s, w, flows.Acct{PID: U2, Password: P2, TOTPSecret: flows.TOTPSecrets[1], RecoveryCodes: []string{"ddddd-44444"}})
						flows.SeedAcct(s, w, flows.Acct{PID: U3, Password: P3, SMSNumber: N1, RecoveryCodes: []string{"eeeee-55555"}})
						return w
					},
					State: c10State, Cover: c10Cover,
				}
				sc.Actions = func(s *world.Stack, w *world.World) []engine.Action {
					b := "B1"
					var a []engine.Action
					a = append(a, flows.A("login(B1,u1,pw:cur,rm)", func(s *world.Stack, _ *world.World) world.Req { return flows.Login(s, b, U1, P1, true) }, ""))
					a = append(a, flows.A("login(B1,u2,pw:cur)", func(s *world.Stack, _ *world.World) world.Req { return flows.Login(s, b, U2, P2, false) }, ""))
					a = append(a, flows.A("login(B1,u3,pw:cur)", func(s *world.Stack, _ *world.World) world.Req { return flows.Login(s, b, U3, P3, false) }, ""))
					if w.Browsers[b].Session["totp_pending"] != "" {
						code := flows.TOTPCode(w, flows.TOTPSecrets[1], 0)
						a = append(a, flows.A("totp-validate(B1,totp:now)", func(s *world.Stack, _ *world.World) world.Req { return flows.TOTPValidate(s, b, code, "") }, ""))
					}
					if c := w.Browsers[b].Session["sms_secret"]; c != "" && w.Browsers[b].Session["sms_pending"] != "" {
						a = append(a, flows.A("sms-validate(B1,sms:session-code)", func(s *world.Stack, _ *world.World) world.Req { return flows.SMSValidate(s, b, c, "") }, ""))
					}
					a = append(a, simple("verify-start(B1,totp)", func(s *world.Stack) world.Req { return flows.VerifyStart(s, b, "totp") }))
					if sec := w.Truth.Newest("vtok", "", false); sec != nil {
						v := sec.Val
						a = append(a, flows.A("verify-end(B1,totp,vtok:mailed)", func(s *world.Stack, _ *world.World) world.Req { return flows.VerifyEnd(s, b, "totp", v) }, ""))
					}
					a = append(a, simple("totp-setup(B1)", func(s *world.Stack) world.Req { return flows.TOTPSetup(s, b) }))
					a = append(a, simple("sms-setup(B1,N2)", func(s *world.Stack) world.Req { return flows.SMSSetup(s, b, N2) }))
					a = append(a, simple("oauth-start(B1,google,rm)", func(s *world.Stack) world.Req { return flows.OAuthStart(s, b, "google", "rm=true&redir=/x") }))
					a = append(a, simple("put(B1,theme)", func(s *world.Stack) world.Req { return flows.Put(b, "theme", "dark") }))
					a = append(a, simple("put(B1,cart)", func(s *world.Stack) world.Req { return flows.Put(b, "cart", "3") }))
					a = append(a, simple("put(B1,csrf)", func(s *world.Stack) world.Req { return flows.Put(b, "csrf", "tok") }))
					a = append(a, flows.Restart(b))
					a = append(a, simple("open(B1)", func(s *world.Stack) world.Req { return flows.Open(b) }))
					if len(w.DB.Tokens[U1]) > 0 {
						// the account's remember tokens are revoked elsewhere (a password change from another device): the cookie stays behind
						a = append(a, flows.Env("admin-revoke-remember-tokens(u1)", func(s *world.Stack, w *world.World) { delete(w.DB.Tokens, U1); w.Truth.Kill("rm", U1, "revoked") }))
					}
					if useExpire {
						a = append(a, flows.Advance(2*time.Minute))
					}
					return a
				}
				out = append(out, engine.Sharded(sc, 4)...)
			}
		}
	}
	return out
}

func init() {
	engine.Register(&engine.Property{
		ID: "C10", Level: "model_checking",
		Rule: "E1 (one browser, all modules, e-mail authorisation on; a second configuration with expire instead of remember) collects every reachable session state; from every distinct state a logout is sent on a clone with each HTTP method, over a grid of whitelists and configured methods; classes = distinct session shapes (key sets) and session kinds reached",
		Units: func(tier string) []engine.Unit {
			scs := c10Scenarios(tier)
			return e1Units(append(scs, configVariants(scs[:4], tier, "nil-state", "err500", "nomount")...))
		},
		Need: []string{"logout:user-lookup-fails", "kind:logged-in", "kind:half-authed", "kind:logged-in-2fa", "kind:mid-2fa-totp", "kind:mid-2fa-sms", "kind:mid-setup-totp", "kind:mid-setup-sms", "kind:mid-oauth2",
			"kind:mid-email-verify", "kind:email-authorised", "kind:cookie-only", "kind:app-keys", "logout:configured-method", "logout:other-method"},
		Assumptions: []string{"flash_success / flash_error written by the logout response itself are part of that response (form mode)", "bounded depth, one browser"},
	})
}
