package props

import (
	"fmt"
	"strings"
	"time"

	"verif/engine"
	"verif/flows"
	"verif/world"
)

// Fixed participants.
const (
	U1 = "u1@x.io"
	U2 = "u2@x.io"
	U3 = "u3@x.io"
	U0 = "nobody@x.io" // never exists
	P1 = "Passw0rd!1"
	P2 = "Passw0rd!2"
	P3 = "N3w!passwordX"
	N1 = "+15550001" // phone numbers
	N2 = "+15550002"
)

func short(pid string) string {
	if i := strings.IndexByte(pid, '@'); i > 0 {
		return pid[:i]
	}
	if pid == "" {
		return "∅"
	}
	return pid
}

// cand is one symbolic candidate value.
type cand struct {
	note string
	val  string
}

var bigValue = strings.Repeat("A", 4096)

// curPassword returns the plaintext of an account's stored password hash.
func curPassword(w *world.World, pid string) (string, bool) {
	r, ok := w.DB.Users[pid]
	if !ok {
		return "", false
	}
	return world.PlainOf(r.Password)
}

// pwCands: the password strings tried against pid.
func pwCands(w *world.World, pid string, others []string, rich bool) []cand {
	var cs []cand
	if p, ok := curPassword(w, pid); ok {
		cs = append(cs, cand{"pw:cur", p})
	}
	for _, o := range others {
		if o == pid {
			continue
		}
		if p, ok := curPassword(w, o); ok {
			cs = append(cs, cand{"pw:of(" + short(o) + ")", p})
		}
	}
	cs = append(cs, cand{"pw:empty", ""})
	if rich {
		if r, ok := w.DB.Users[pid]; ok && r.Password != "" {
			cs = append(cs, cand{"pw:stored-hash", r.Password})
		}
		cs = append(cs, cand{"pw:4KiB", bigValue})
		// near misses of the right password: wrapped in whitespace, another letter case
		if p, ok := curPassword(w, pid); ok && p != "" {
			cs = append(cs, cand{"pw:cur+trailing-space", p + " "}, cand{"pw:tab+cur+newline", "\t" + p + "\n"}, cand{"pw:cur-other-case", swapCase(p)})
		}
	}
	return dedupe(cs)
}

func dedupe(cs []cand) []cand {
	seen := map[string]bool{}
	var out []cand
	for _, c := range cs {
		if seen[c.val] {
			continue
		}
		seen[c.val] = true
		out = append(out, c)
	}
	return out
}

func loginActs(w *world.World, b string, pids []string, accounts []string, rich bool, rms []bool) []engine.Action {
	var out []engine.Action
	for _, pid := range pids {
		for _, c := range pwCands(w, pid, accounts, rich) {
			for _, rm := range rms {
				pid, c, rm := pid, c, rm
				n := fmt.Sprintf("login(%s,%s,%s", b, short(pid), c.note)
				if rm {
					n += ",rm"
				}
				n += ")"
				out = append(out, flows.A(n, func(s *world.Stack, _ *world.World) world.Req {
					r := flows.Login(s, b, pid, c.val, rm)
					r.Tag.Note = c.note
					return r
				}, ""))
			}
		}
	}
	return out
}

// otpCands: the one-time passwords tried against pid.
func otpCands(w *world.World, pid string, accounts []string, rich bool) []cand {
	var cs []cand
	t := w.Truth
	live := t.Live("otp", pid)
	for i, s := range live {
		if i >= 2 {
			break
		}
		cs = append(cs, cand{fmt.Sprintf("otp:live#%d", i), s.Val})
	}
	for _, o := range accounts {
		if o == pid {
			continue
		}
		if s := t.Newest("otp", o, false); s != nil {
			cs = append(cs, cand{"otp:of(" + short(o) + ")", s.Val})
		}
	}
	if s := t.NewestUsed("otp", pid); s != nil {
		cs = append(cs, cand{"otp:used", s.Val})
	}
	if s := t.NewestDeadUnused("otp", pid); s != nil {
		cs = append(cs, cand{"otp:dead", s.Val})
	}
	if rich {
		if r, ok := w.DB.Users[pid]; ok && r.OTPs != "" {
			cs = append(cs, cand{"otp:stored-hash", strings.Split(r.OTPs, ",")[0]})
		}
		cs = append(cs, cand{"otp:empty", ""})
		if p, ok := curPassword(w, pid); ok {
			cs = append(cs, cand{"otp:password", p})
		}
	}
	return dedupe(cs)
}

func otpLoginActs(w *world.World, b string, pids, accounts []string, rich bool) []engine.Action {
	var out []engine.Action
	for _, pid := range pids {
		for _, c := range otpCands(w, pid, accounts, rich) {
			pid, c := pid, c
			out = append(out, flows.A(fmt.Sprintf("otplogin(%s,%s,%s)", b, short(pid), c.note), func(s *world.Stack, _ *world.World) world.Req {
				r := flows.OTPLogin(s, b, pid, c.val, false)
				r.Tag.Note = c.note
				return r
			}, ""))
		}
	}
	return out
}

func simple(name string, f func(s *world.Stack) world.Req) engine.Action {
	return flows.A(name, func(s *world.Stack, _ *world.World) world.Req { return f(s) }, "")
}

// totpCands: codes tried at a TOTP prompt for account pid (the account whose
// factor the code would be checked against).
func totpCands(w *world.World, pid string, accounts []string, rich bool) []cand {
	var cs []cand
	if r, ok := w.DB.Users[pid]; ok && r.TOTPSecretKey != "" {
		cs = append(cs, cand{"totp:now", flows.TOTPCode(w, r.TOTPSecretKey, 0)})
		if rich {
			cs = append(cs, cand{"totp:+30s", flows.TOTPCode(w, r.TOTPSecretKey, 30*time.Second)})
			cs = append(cs, cand{"totp:+90s", flows.TOTPCode(w, r.TOTPSecretKey, 90*time.Second)})
		}
	}
	for _, o := range accounts {
		if o == pid {
			continue
		}
		if r, ok := w.DB.Users[o]; ok && r.TOTPSecretKey != "" {
			cs = append(cs, cand{"totp:of(" + short(o) + ")", flows.TOTPCode(w, r.TOTPSecretKey, 0)})
		}
	}
	cs = append(cs, cand{"code:000000", "000000"})
	return dedupe(cs)
}

// rcCands: recovery codes tried for pid.
func rcCands(w *world.World, pid string, accounts []string, rich bool) []cand {
	var cs []cand
	t := w.Truth
	if l := t.Live("rc", pid); len(l) > 0 {
		cs = append(cs, cand{"rc:live", l[0].Val})
	}
	for _, o := range accounts {
		if o == pid {
			continue
		}
		if l := t.Live("rc", o); len(l) > 0 {
			cs = append(cs, cand{"rc:of(" + short(o) + ")", l[0].Val})
		}
	}
	if s := t.NewestUsed("rc", pid); s != nil {
		cs = append(cs, cand{"rc:used", s.Val})
	}
	if s := t.NewestDeadUnused("rc", pid); s != nil {
		cs = append(cs, cand{"rc:dead", s.Val})
	}
	if rich {
		if r, ok := w.DB.Users[pid]; ok && r.RecoveryCodes != "" {
			cs = append(cs, cand{"rc:stored-hash", strings.Split(r.RecoveryCodes, ",")[0]})
		}
	}
	return dedupe(cs)
}

// smsCands: codes an actor who can read the given phones could type.
func smsCands(w *world.World, phones []string) []cand {
	var cs []cand
	seen := map[string]bool{}
	for i := len(w.Truth.SMSLog) - 1; i >= 0; i-- {
		m := w.Truth.SMSLog[i]
		ok := false
		for _, p := range phones {
			if p == m.Number {
				ok = true
			}
		}
		if !ok || seen[m.Number] {
			continue
		}
		seen[m.Number] = true
		cs = append(cs, cand{"sms:last-to(" + m.Number + ")", m.Code})
	}
	cs = append(cs, cand{"code:000000", "000000"})
	return dedupe(cs)
}

// pendingOf returns the account a browser's session is parked on.
func pendingOf(w *world.World, b string) (totp, sms string) {
	ses := w.Browsers[b].Session
	return ses["totp_pending"], ses["sms_pending"]
}

// subject is the account a 2FA prompt in browser b will check a code against:
// the session user, else the pending one.
func subject(w *world.World, b, kind string) string {
	if u := w.UID(b); u != "" {
		return u
	}
	tp, sp := pendingOf(w, b)
	if kind == "totp" {
		return tp
	}
	return sp
}

func waitActs(ds ...time.Duration) []engine.Action {
	var out []engine.Action
	for _, d := range ds {
		out = append(out, flows.Advance(d))
	}
	return out
}
