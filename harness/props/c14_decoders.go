package props

import (
	"context"
	"fmt"
	"io"
	"net/http"
	"strings"
	"time"

	aboauth2 "github.com/volatiletech/authboss/v3/oauth2"
	xoauth2 "golang.org/x/oauth2"
	"verif/engine"
)

// c14Decoders: the shipped FindUserDetails functions (Google, Facebook) against every "me"
// document of a small product: the id as a JSON string or as a bare JSON number, short and
// beyond 2^53, with leading zeros and surrounding blanks. Whatever a decoder accepts, the uid it
// reports is the id the provider sent (as text), and two different ids never give the same uid.
type docRT struct{ doc string }

func (d docRT) RoundTrip(r *http.Request) (*http.Response, error) {
	return &http.Response{StatusCode: 200, Header: http.Header{"Content-Type": {"application/json"}}, Body: io.NopCloser(strings.NewReader(d.doc)), Request: r}, nil
}

func c14Decoders(dl time.Time) engine.UnitResult {
	res := engine.UnitResult{Exhaustive: true, Distinct: map[string]bool{}, Cover: map[string]int{}}
	t0 := time.Now()
	ids := []string{"7", "007", "70", "7 ", "a7", "10216456789012345678", "10216456789012345679", "9007199254740993", "9007199254740992", "1e3", "1000", "-7", "7.0"}
	type dec struct {
		name string
		f    func(context.Context, xoauth2.Config, *xoauth2.Token) (map[string]string, error)
	}
	for _, d := range []dec{{"google", aboauth2.GoogleUserDetails}, {"facebook", aboauth2.FacebookUserDetails}} {
		seen := map[string]string{} // uid -> reported id
		for _, id := range ids {
			for _, bare := range []bool{false, true} {
				lit := `"` + id + `"`
				if bare {
					if strings.ContainsAny(id, " a") || strings.HasPrefix(id, "00") {
						continue // not a JSON number
					}
					lit = id
				}
				doc := `{"id":` + lit + `,"email":"o@provider.test","name":"O"}`
				ctx := context.WithValue(context.Background(), xoauth2.HTTPClient, &http.Client{Transport: docRT{doc}})
				m, err := d.f(ctx, xoauth2.Config{}, &xoauth2.Token{AccessToken: "t"})
				res.Evaluations++
				class := "decoded"
				if err != nil {
					class = "refused"
				}
				res.Distinct["decoder:"+class+map[bool]string{false: ":string-id", true: ":number-id"}[bare]] = true
				res.Cover["decoder:"+class]++
				if err != nil {
					continue
				}
				uid := m[aboauth2.OAuth2UID]
				if uid != id {
					res.Violations = append(res.Violations, engine.Violation{Rule: "C14/decoder-altered-uid", Attrs: "decoder=" + d.name + ",bare-number=" + fmt.Sprint(bare),
						Detail: fmt.Sprintf("%sUserDetails reported uid %q for the document %s", d.name, uid, doc), Scen: "provider-decoders", Path: []string{d.name + " " + doc}})
				}
				if prev, ok := seen[uid]; ok && prev != id {
					res.Violations = append(res.Violations, engine.Violation{Rule: "C14/pid-collision", Attrs: "decoder=" + d.name,
						Detail: fmt.Sprintf("%sUserDetails maps the provider ids %s and %s to the same uid %q", d.name, prev, id, uid), Scen: "provider-decoders", Path: []string{d.name + " " + doc}})
				}
				seen[uid] = id
			}
		}
	}
	res.Samples = []interface{}{"GoogleUserDetails / FacebookUserDetails x 13 ids x {JSON string, bare JSON number}"}
	res.WallS = time.Since(t0).Seconds()
	return res
}
