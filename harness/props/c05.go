package props

import (
	"crypto/sha512"
	"encoding/base64"
	"fmt"
	"reflect"
	"strings"
	"time"

	"verif/engine"
	"verif/flows"
	"verif/world"
)

// C05 — confirm and recovery links work once, only for their account and
// unmodified. E1 over issue / re-issue / use histories (reference model of
// token acceptance evaluated on every submission) x E2: from every reached
// state with an outstanding token, ~600 near-miss values per token kind are
// submitted on clones; each must change nothing, and the genuine token
// submitted afterwards on that same clone must still be accepted.

func dbEqual(a, b *world.DB) bool {
	return reflect.DeepEqual(a.Users, b.Users) && reflect.DeepEqual(a.Tokens, b.Tokens)
}

// tokenDenotes returns the live secret of kind the submitted string denotes.
func tokenDenotes(w *world.World, kind, submitted string) *world.Secret {
	for _, s := range w.Truth.Live(kind, "") {
		if sameTokenBytes(submitted, s.Val) {
			return s
		}
	}
	return nil
}

func c05ExpectRecover(st *engine.Step, pre *world.World, token, newpw string) *world.Secret {
	sec := tokenDenotes(pre, "rtok", token)
	if sec == nil {
		return nil
	}
	if pre.Now.After(sec.At.Add(st.S.AB.Config.Modules.RecoverTokenDuration)) {
		return nil
	}
	return sec
}

// c05CheckSubmission applies the reference model to one confirm / recover-end
// submission (pre -> post via o).
func c05CheckSubmission(st *engine.Step, pre *world.World, o *world.Obs, post *world.World, where string) {
	tag := o.Req.Tag
	switch tag.Kind {
	case "recover_end":
		sec := c05ExpectRecover(st, pre, tag.Secret, tag.Code)
		if sec == nil {
			if !dbEqual(pre.DB, post.DB) {
				st.Report(engine.Violation{Rule: "C05/rejected-token-changed-storage", Attrs: "kind=recover,token=" + tag.Note,
					Detail: fmt.Sprintf("%s: recover-end with token class %s (not a live, unexpired token) changed the database", where, tag.Note)})
			}
			if o.UIDAfter() != o.UIDBefore() {
				st.Report(engine.Violation{Rule: "C05/rejected-token-changed-session", Attrs: "kind=recover,token=" + tag.Note,
					Detail: fmt.Sprintf("%s: recover-end with token class %s changed the session user", where, tag.Note)})
			}
			return
		}
		own := post.DB.Users[sec.Owner]
		p, ok := world.PlainOf(own.Password)
		if len(o.FaultFired) > 0 {
			// a backend failure excuses the positive obligation, never the safety half: the password
			// must not have changed while the token that authorised the change is still outstanding
			if own.Password != pre.DB.Users[sec.Owner].Password && own.RecoverSelector != "" {
				st.Report(engine.Violation{Rule: "C05/token-not-spent-by-its-use", Attrs: "kind=recover,fault=" + strings.Join(o.FaultFired, "+"),
					Detail: where + ": under a backend failure the recovery changed the password but left the token outstanding"})
			}
		} else if !ok || p != tag.Code || own.RecoverSelector != "" {
			st.Report(engine.Violation{Rule: "C05/genuine-token-not-accepted", Attrs: "kind=recover,token=" + tag.Note,
				Detail: fmt.Sprintf("%s: recover-end with the genuine live token of %s (age %s of %s) did not set the new password / spend the token (status %d, handler error %v)",
					where, sec.Owner, pre.Now.Sub(sec.At), st.S.AB.Config.Modules.RecoverTokenDuration, o.Status, o.ErrLog != "")})
		}
		for pid, r := range post.DB.Users {
			if pid != sec.Owner && !reflect.DeepEqual(r, pre.DB.Users[pid]) {
				st.Report(engine.Violation{Rule: "C05/token-changed-other-account", Attrs: "kind=recover", Detail: where + ": a recovery token changed an account it was not issued to: " + pid})
			}
		}
	case "confirm":
		sec := tokenDenotes(pre, "ctok", tag.Secret)
		if sec == nil {
			if !dbEqual(pre.DB, post.DB) {
				st.Report(engine.Violation{Rule: "C05/rejected-token-changed-storage", Attrs: "kind=confirm,token=" + tag.Note,
					Detail: fmt.Sprintf("%s: confirm with token class %s (not a live token) changed the database", where, tag.Note)})
			}
			return
		}
		own := post.DB.Users[sec.Owner]
		if len(o.FaultFired) > 0 {
			if own.Confirmed && !pre.DB.Users[sec.Owner].Confirmed && own.ConfirmSelector != "" {
				st.Report(engine.Violation{Rule: "C05/token-not-spent-by-its-use", Attrs: "kind=confirm,fault=" + strings.Join(o.FaultFired, "+"),
					Detail: where + ": under a backend failure the account was confirmed but the token was left outstanding"})
			}
		} else if !own.Confirmed || own.ConfirmSelector != "" {
			st.Report(engine.Violation{Rule: "C05/genuine-token-not-accepted", Attrs: "kind=confirm,token=" + tag.Note,
				Detail: fmt.Sprintf("%s: confirm with the genuine live token of %s did not confirm the account / spend the token", where, sec.Owner)})
		}
		for pid, r := range post.DB.Users {
			if pid != sec.Owner && !reflect.DeepEqual(r, pre.DB.Users[pid]) {
				st.Report(engine.Violation{Rule: "C05/token-changed-other-account", Attrs: "kind=confirm", Detail: where + ": a confirm token changed an account it was not issued to: " + pid})
			}
		}
	}
}

// c05Model: the oracle's own token life cycle (used = submitted while live and unexpired).
func c05Model(st *engine.Step) {
	o := st.Obs
	if o == nil {
		return
	}
	tag := o.Req.Tag
	switch tag.Kind {
	case "recover_end":
		if sec := c05ExpectRecover(st, st.Pre, tag.Secret, tag.Code); sec != nil {
			if len(o.FaultFired) > 0 && st.Post.DB.Users[sec.Owner].RecoverSelector != "" {
				break // the request failed before the token was spent: storage decides, the token is still outstanding
			}
			if s2 := st.Post.Truth.ByVal("rtok", sec.Val); s2 != nil && !s2.Dead {
				s2.Dead, s2.Why, s2.Used = true, "used", true
			}
		}
	case "confirm":
		if sec := tokenDenotes(st.Pre, "ctok", tag.Secret); sec != nil {
			if len(o.FaultFired) > 0 && st.Post.DB.Users[sec.Owner].ConfirmSelector != "" {
				break
			}
			if s2 := st.Post.Truth.ByVal("ctok", sec.Val); s2 != nil && !s2.Dead {
				s2.Dead, s2.Why, s2.Used = true, "used", true
			}
		}
	}
}

func c05Monitor(st *engine.Step) {
	if st.Obs == nil {
		return
	}
	c05CheckSubmission(st, st.Pre, st.Obs, st.Post, "history step")
}

func b64(b []byte) string { return base64.URLEncoding.EncodeToString(b) }

// nearMisses builds the candidate set around a genuine token.
func nearMisses(w *world.World, kind string, sec *world.Secret, quick bool) []cand {
	raw, err := base64.URLEncoding.DecodeString(sec.Val)
	if err != nil || len(raw) != 64 {
		return nil
	}
	var cs []cand
	step := 1
	if quick {
		step = 3 // every third bit in the quick tier (all bytes are still touched)
	}
	for bit := 0; bit < 512; bit += step {
		c := append([]byte(nil), raw...)
		c[bit/8] ^= 1 << uint(bit%8)
		cs = append(cs, cand{"bitflip", b64(c)})
	}
	cs = append(cs,
		cand{"truncated-63", b64(raw[:63])},
		cand{"extended-65", b64(append(append([]byte(nil), raw...), 0))},
		cand{"extended-65-ff", b64(append(append([]byte(nil), raw...), 0xff))},
		cand{"half-32", b64(raw[:32])},
		cand{"shifted", b64(raw[1:])},
		cand{"shifted-padded", b64(append(append([]byte(nil), raw[1:]...), 0))},
		cand{"empty", ""},
		cand{"zeros", b64(make([]byte, 64))},
		cand{"ones", b64(bytesOf(0xff, 64))},
		cand{"not-base64", "!!!" + sec.Val[3:]},
		cand{"raw-unpadded", base64.RawURLEncoding.EncodeToString(raw) + "A"},
	)
	// values built from storage
	row := w.DB.Users[sec.Owner]
	sel, ver := row.RecoverSelector, row.RecoverVerifier
	if kind == "ctok" {
		sel, ver = row.ConfirmSelector, row.ConfirmVerifier
	}
	cs = append(cs, cand{"stored-selector", sel}, cand{"stored-verifier", ver})
	if sb, e1 := base64.StdEncoding.DecodeString(sel); e1 == nil && len(sb) == 64 {
		cs = append(cs, cand{"selector-hash-as-token", b64(sb)})
		if vb, e2 := base64.StdEncoding.DecodeString(ver); e2 == nil && len(vb) == 64 {
			cs = append(cs, cand{"verifier-hash-as-token", b64(vb)})
			cs = append(cs, cand{"sel32+ver32-of-hashes", b64(append(append([]byte(nil), sb[:32]...), vb[:32]...))})
		}
	}
	h1 := sha512.Sum512(raw[:32])
	cs = append(cs, cand{"sha512-of-first-half", b64(h1[:])})
	// cross-account splices and other accounts' genuine tokens
	for _, o := range w.Truth.Live(kind, "") {
		if o.Owner == sec.Owner {
			continue
		}
		oraw, err := base64.URLEncoding.DecodeString(o.Val)
		if err != nil || len(oraw) != 64 {
			continue
		}
		cs = append(cs,
			cand{"splice-own-sel+other-ver", b64(append(append([]byte(nil), raw[:32]...), oraw[32:]...))},
			cand{"splice-other-sel+own-ver", b64(append(append([]byte(nil), oraw[:32]...), raw[32:]...))})
	}
	for _, d := range w.Truth.Find(kind, "") {
		if d.Dead {
			cs = append(cs, cand{"dead-genuine(" + d.Why + ")", d.Val})
		}
	}
	// the other kind's live token of the same account
	otherKind := "ctok"
	if kind == "ctok" {
		otherKind = "rtok"
	}
	for _, o := range w.Truth.Live(otherKind, "") {
		cs = append(cs, cand{"other-kind-token", o.Val})
	}
	return cs
}

func bytesOf(b byte, n int) []byte {
	out := make([]byte, n)
	for i := range out {
		out[i] = b
	}
	return out
}

// altSpellings: same bytes, different base64 text (non-zero trailing bits).
func altSpellings(tok string) []string {
	if len(tok) != 88 || tok[86:] != "==" {
		return nil
	}
	const alpha = "ABCDEFGHIJKLMNOPQRSTUVWXYZabcdefghijklmnopqrstuvwxyz0123456789-_"
	idx := -1
	for i := 0; i < len(alpha); i++ {
		if alpha[i] == tok[85] {
			idx = i
		}
	}
	if idx < 0 {
		return nil
	}
	var out []string
	for _, low := range []int{1, 15} {
		out = append(out, tok[:85]+string(alpha[(idx&^15)|low])+"==")
	}
	return out
}

func c05State(quick bool) func(st *engine.Step) {
	return func(st *engine.Step) {
		w := st.Post
		doneClass := map[string]bool{}
		for _, kind := range []string{"rtok", "ctok"} {
			for _, sec := range w.Truth.Live(kind, "") {
				if kind == "rtok" && w.Now.After(sec.At.Add(st.S.AB.Config.Modules.RecoverTokenDuration)) {
					continue
				}
				submit := func(cl *world.World, tok, note string) *world.Obs {
					var rq world.Req
					if kind == "rtok" {
						rq = flows.RecoverEnd(st.S, "B2", tok, P3)
					} else {
						rq = flows.Confirm(st.S, "B2", tok)
					}
					rq.Tag.Note = note
					return flows.Exec(st.S, cl, rq, "")
				}
				cands := nearMisses(w, kind, sec, quick)
				for _, c := range cands {
					if sameTokenBytes(c.val, sec.Val) || tokenDenotes(w, kind, c.val) != nil {
						continue
					}
					cl := w.Clone()
					o := submit(cl, c.val, c.note)
					if o.Status == -1 {
						continue
					}
					st.Count(1, "near-miss:"+kind+":"+c.note)
					if !dbEqual(w.DB, cl.DB) || o.UIDAfter() != o.UIDBefore() {
						st.Report(engine.Violation{Rule: "C05/near-miss-token-accepted", Attrs: "kind=" + kind + ",class=" + c.note,
							Detail: fmt.Sprintf("in a state with an outstanding %s of %s, submitting the value class %q (%s) changed the database or the session", kind, sec.Owner, c.note, flows.Label(c.val))})
						continue
					}
					// the genuine token must still work afterwards, on this same clone
					// (once per value class and state: the clone was just shown to equal the state)
					if doneClass[kind+c.note] {
						continue
					}
					doneClass[kind+c.note] = true
					pre2 := cl.Clone()
					o2 := submit(cl, sec.Val, "genuine-after-near-miss")
					before := len(st.Path)
					_ = before
					c05CheckSubmissionAs(st, pre2, o2, cl, "genuine token after near-miss "+c.note, "after-near-miss:"+c.note)
				}
				for _, alt := range altSpellings(sec.Val) {
					cl := w.Clone()
					o := submit(cl, alt, "alt-spelling")
					st.Count(1, "alt-spelling:"+kind)
					if dbEqual(w.DB, cl.DB) && o.UIDAfter() == o.UIDBefore() {
						continue // rejected with no change: fine
					}
					// otherwise it must have been accepted exactly as the genuine token would be
					ref := w.Clone()
					submit(ref, sec.Val, "genuine")
					if !reflect.DeepEqual(rowsNoSecrets(ref.DB), rowsNoSecrets(cl.DB)) {
						st.Report(engine.Violation{Rule: "C05/alt-spelling-differs", Attrs: "kind=" + kind,
							Detail: "an alternative base64 spelling of the genuine token was neither rejected without change nor accepted exactly like the genuine token"})
					}
				}
				// positive half: accepted once, and only once
				cl := w.Clone()
				pre1 := cl.Clone()
				o1 := submit(cl, sec.Val, "genuine")
				st.Count(1, "genuine:"+kind)
				c05CheckSubmission(st, pre1, o1, cl, "genuine token")
				after := cl.Clone()
				if s2 := cl.Truth.ByVal(kind, sec.Val); s2 != nil {
					s2.Dead, s2.Used = true, true
				}
				o2 := submit(cl, sec.Val, "genuine-second-use")
				st.Count(1, "second-use:"+kind)
				if !dbEqual(after.DB, cl.DB) || o2.UIDAfter() != o2.UIDBefore() {
					st.Report(engine.Violation{Rule: "C05/token-accepted-twice", Attrs: "kind=" + kind,
						Detail: fmt.Sprintf("the genuine %s of %s was accepted a second time (the second submission changed storage or the session)", kind, sec.Owner)})
				}
			}
		}
	}
}

// c05CheckSubmissionAs is c05CheckSubmission with the violation attributed to a near-miss class.
func c05CheckSubmissionAs(st *engine.Step, pre *world.World, o *world.Obs, post *world.World, where, attr string) {
	inner := *st
	inner.Report = func(v engine.Violation) {
		v.Rule = "C05/genuine-token-unusable-after-near-miss"
		v.Attrs = attr
		st.Report(v)
	}
	c05CheckSubmission(&inner, pre, o, post, where)
}

// rowsNoSecrets strips the salted password hash (it differs between two runs by construction).
func rowsNoSecrets(d *world.DB) map[string]world.Row {
	out := map[string]world.Row{}
	for k, r := range d.Users {
		if p, ok := world.PlainOf(r.Password); ok {
			r.Password = "H(" + p + ")"
		}
		out[k] = r
	}
	return out
}

func c05Cover(st *engine.Step) []string {
	o := st.Obs
	if o == nil {
		return nil
	}
	tag := o.Req.Tag
	switch tag.Kind {
	case "recover_end":
		if c05ExpectRecover(st, st.Pre, tag.Secret, tag.Code) != nil {
			return []string{"recover:accepted"}
		}
		return []string{"recover:rejected:" + tag.Note}
	case "confirm":
		if tokenDenotes(st.Pre, "ctok", tag.Secret) != nil {
			return []string{"confirm:accepted"}
		}
		return []string{"confirm:rejected:" + tag.Note}
	}
	return nil
}

func c05Scenarios(tier string) []engine.Scenario {
	depth := 4
	if tier == "thorough" {
		depth = 5
	}
	var out []engine.Scenario
	type v struct {
		name     string
		validity time.Duration
		method   string
		login    bool
	}
	// (a negative validity period: every token is born expired)
	vs := []v{{"v10s-get", 10 * time.Second, "GET", false}, {"v-negative-get", -time.Second, "GET", true}}
	if tier == "thorough" {
		vs = append(vs, v{"v24h-post", 24 * time.Hour, "POST", false}, v{"v10s-get-login", 10 * time.Second, "GET", true})
	} else {
		vs = append(vs, v{"v24h-post-login", 24 * time.Hour, "POST", true})
	}
	for _, x := range vs {
		x := x
		sc := engine.Scenario{
			Name: x.name, Depth: depth, Sat: x.validity + 2*time.Second,
			Cfg: world.Config{Modules: []string{"auth", "register", "confirm", "recover"}, RecoverTokenDuration: x.validity, MailRouteMethod: x.method, RecoverLoginAfter: x.login},
			Init: func(s *world.Stack) *world.World {
				w := world.NewWorld("B1", "B2")
				flows.SeedAcct(s, w, flows.Acct{PID: U1, Password: P1})
				flows.SeedAcct(s, w, flows.Acct{PID: U2, Password: P2, Unconfirmed: true})
				// an unconfirmed account that holds no token at all (empty selector / verifier in storage)
				flows.SeedAcct(s, w, flows.Acct{PID: "a0@x.io", Password: P2, Unconfirmed: true})
				return w
			},
			Model: c05Model, Monitor: c05Monitor, State: c05State(tier != "thorough"), Cover: c05Cover,
			Need: []string{"recover:accepted", "confirm:accepted", "recover:rejected:rtok:dead(u1)"},
		}
		sc.Actions = func(s *world.Stack, w *world.World) []engine.Action {
			var a []engine.Action
			b := "B1"
			a = append(a, flows.A("recover-start(B1,u1)", func(s *world.Stack, _ *world.World) world.Req { return flows.RecoverStart(s, b, U1) }, U1))
			a = append(a, flows.A("recover-start(B1,u2)", func(s *world.Stack, _ *world.World) world.Req { return flows.RecoverStart(s, b, U2) }, U2))
			a = append(a, recoverEndActs(w, b, []string{U1, U2}, P3)...)
			a = append(a, flows.AdminStartConfirm(U2), flows.AdminStartConfirm(U1))
			if r := w.DB.Users[U2]; !r.Confirmed && r.ConfirmSelector != "" {
				// the account is confirmed out of band (support desk) while its link is outstanding: the link is still spent by its use
				a = append(a, flows.Env("admin-confirm(u2)", func(s *world.Stack, w *world.World) { r := w.DB.Users[U2]; r.Confirmed = true; w.DB.Users[U2] = r }))
			}
			a = append(a, confirmActs(w, b, []string{U1, U2, U3})...)
			if _, ok := w.DB.Users[U3]; !ok {
				a = append(a, flows.A("register(B1,u3)", func(s *world.Stack, _ *world.World) world.Req {
					return flows.Register(s, b, map[string]string{"email": U3, "password": P3, "confirm_password": P3})
				}, U3))
			}
			a = append(a, waitActs(x.validity-time.Second, time.Second)...)
			return a
		}
		out = append(out, engine.Sharded(sc, 8)...)
	}
	return out
}

func init() {
	engine.Register(&engine.Property{
		ID: "C05", Level: "model_checking",
		Rule: "E1 over issue / re-issue / use / expiry histories with a reference model of token acceptance on every submission; E2 battery from every distinct reached state with an outstanding token: single-bit flips of the 64 token bytes, length changes, cross-account splices, values built from storage, dead genuine tokens, alternative base64 spellings - each on a clone, followed by the genuine token on that same clone; classes = near-miss classes and accept/reject kinds hit",
		Units: func(tier string) []engine.Unit {
			scs := c05Scenarios(tier)
			vs := configVariants(scs, tier, "faults:confirm(|recover-end(", "err500", "nomount")
			// API mode reads the token from a JSON body: only coherent with MailRouteMethod = POST
			vs = append(vs, configVariants(from(scs, "v24h-post"), "quick", "json")...)
			return e1Units(append(scs, vs...))
		},
		Need:        []string{"recover:accepted", "confirm:accepted", "recover:rejected:rtok:dead(u1)", "near-miss:rtok:bitflip", "near-miss:ctok:bitflip", "second-use:rtok", "second-use:ctok", "near-miss:rtok:splice-own-sel+other-ver", "near-miss:rtok:dead-genuine(superseded)"},
		Assumptions: []string{"quick tier flips every third bit (all 64 bytes touched), thorough flips all 512", "bounded depth, 3 accounts"},
	})
}
