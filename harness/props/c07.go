package props

import (
	"encoding/base64"
	"fmt"
	"reflect"
	"strings"

	"github.com/volatiletech/authboss/v3"
	"verif/engine"
	"verif/flows"
	"verif/world"
)

// C07 — remember-me cookies are single-use, bound to one user, and grant only
// half-auth. E1 over a PID alphabet (incl. the separator characters and the
// PIDs the library builds for OAuth2 users) x a cookie alphabet x issue / use /
// replay / theft / logout / password reset.

const c07Bystander = "b@x.io"

// probeKinds are requests that carry no credential of their own: what happens
// to the session in them is entirely the remember middleware's doing.
var probeKinds = map[string]bool{"open": true, "prot": true, "full": true, "notmod": true}

// c07Model records what each browser's most recent OAuth2 start request asked for.
func c07Model(st *engine.Step) {
	o := st.Obs
	if o == nil || o.Req.Tag.Kind != "oauth_start" || !o.Wrote {
		return
	}
	k := "c07:oauth-asked:" + o.Req.Browser
	if strings.Contains(o.Req.Tag.Note, "rm=true") {
		st.Post.Truth.Flags[k] = "rm"
	} else {
		delete(st.Post.Truth.Flags, k)
	}
}

func c07Monitor(st *engine.Step) {
	o := st.Obs
	if o == nil {
		return
	}
	tag := o.Req.Tag
	pre, post := st.Pre, st.Post
	b := o.Req.Browser
	c := o.CookBefore["rm"]
	c2 := o.CookAfter["rm"]

	// (issue) a cookie is only issued when the user asked to be remembered.
	if c2 != "" && c2 != c {
		// for an OAuth2 callback, "asked" is what the browser's most recent start request asked for
		// (the oracle's own record - the session's parameter blob may be a leftover of an abandoned start)
		asked := tag.RM || (tag.Kind == "oauth_cb" && pre.Truth.Flags["c07:oauth-asked:"+b] == "rm")
		// (a rotation hands out the successor of a LIVE cookie; a dead or foreign-made one has no successor)
		rotated := false
		if sec := pre.Truth.ByVal("rm", c); o.UIDBefore() == "" && c != "" && sec != nil && !sec.Dead {
			rotated = true
		}
		if !asked && !rotated {
			st.Report(engine.Violation{Rule: "C07/cookie-issued-unasked", Attrs: "kind=" + tag.Kind,
				Detail: fmt.Sprintf("a %s request that did not ask to be remembered (and presented no cookie) was answered with a remember cookie", tag.Kind)})
		}
	}
	// (binding) the cookie a login hands out is bound to the account that logged in
	if c2 != "" && c2 != c && tag.Kind == "login" && tag.RM && o.UIDAfter() == tag.PID {
		if sec := post.Truth.ByVal("rm", c2); sec != nil && sec.Owner != tag.PID {
			st.Report(engine.Violation{Rule: "C07/cookie-bound-to-another-account", Detail: fmt.Sprintf("the remember cookie issued by the login of %q is stored for %q", tag.PID, sec.Owner)})
		}
	}
	if !probeKinds[tag.Kind] {
		// (upgrade) a completed full login clears the half-auth mark
		if (tag.Kind == "login" || tag.Kind == "oauth_cb") && accepted(o) && o.UIDAfter() != "" {
			if _, half := o.SessAfter[authboss.SessionHalfAuthKey]; half && o.UIDAfter() == tag.PID {
				st.Report(engine.Violation{Rule: "C07/full-login-keeps-halfauth", Detail: "a completed password login left the half-auth mark in the session"})
			}
		}
		return
	}
	if o.UIDBefore() != "" {
		// (scope) a request that already has a session user leaves cookie and table untouched
		if c2 != c || !reflect.DeepEqual(pre.DB.Tokens, post.DB.Tokens) {
			st.Report(engine.Violation{Rule: "C07/cookie-touched-while-logged-in", Detail: "a request from a session that already has a user changed the remember cookie or the token table"})
		}
		return
	}
	if c == "" {
		return
	}
	sec := pre.Truth.ByVal("rm", c)
	class := cookieClass(pre, c)
	if len(o.FaultFired) > 0 {
		// a backend failure excuses the positive obligations, never the safety ones
		if tag.Kind == "full" && o.Probe != nil && o.Probe.Ran {
			st.Report(engine.Violation{Rule: "C07/cookie-request-passes-full-auth", Attrs: "fault=" + strings.Join(o.FaultFired, "+"),
				Detail: "under a backend failure a request carrying nothing but a remember cookie was served by a handler that requires FULL authentication"})
		}
		if u := o.UIDAfter(); u != "" {
			if sec == nil || sec.Dead || sec.Owner != u {
				st.Report(engine.Violation{Rule: "C07/dead-cookie-authenticated", Attrs: "cookie=" + class + ",fault", Detail: "under a backend failure a dead or foreign cookie authenticated " + u})
			} else if o.SessAfter[authboss.SessionHalfAuthKey] != "true" {
				st.Report(engine.Violation{Rule: "C07/cookie-login-not-half-auth", Attrs: "fault=" + strings.Join(o.FaultFired, "+"),
					Detail: "a backend failure during cookie authentication left a session that is logged in but NOT marked half-authenticated"})
			}
		}
		return
	}
	if sec != nil && !sec.Dead && sec.Owner != "" {
		// (use) a live cookie re-authenticates exactly its account, once, rotating
		u := sec.Owner
		switch {
		case o.UIDAfter() != u:
			st.Report(engine.Violation{Rule: "C07/valid-cookie-not-honoured", Attrs: "pid-class=" + pidClass(u),
				Detail: fmt.Sprintf("browser %s presented an unused remember cookie issued to %q and was not authenticated as that account (session user after the request: %q)", b, u, o.UIDAfter())})
			return
		case o.SessAfter[authboss.SessionHalfAuthKey] != "true":
			st.Report(engine.Violation{Rule: "C07/cookie-login-not-half-auth", Detail: "a session established by a remember cookie is not marked half-authenticated"})
		case c2 == "" || c2 == c:
			st.Report(engine.Violation{Rule: "C07/cookie-not-rotated", Detail: "the used remember cookie was not replaced by a fresh one"})
		}
		if h, ok := world.RememberHash(c); ok && tokenRowHas(post, h) {
			st.Report(engine.Violation{Rule: "C07/used-token-still-stored", Detail: "the used remember token is still in the server table: the old cookie value is not dead"})
		}
		if h, ok := world.RememberHash(c2); c2 != "" && c2 != c && (!ok || !tokenRowHas(post, h)) {
			st.Report(engine.Violation{Rule: "C07/rotated-token-not-stored", Detail: "the fresh cookie handed out has no row in the server table"})
		}
		// (strength) the very request in which the cookie authenticates is only half-authenticated
		if tag.Kind == "full" && o.Probe != nil && o.Probe.Ran {
			st.Report(engine.Violation{Rule: "C07/cookie-request-passes-full-auth", Attrs: "pid-class=" + pidClass(u),
				Detail: "a request carrying nothing but a remember cookie was served by a handler that requires FULL authentication (the half-auth mark only reaches the next request)"})
		}
		return
	}
	// unknown / malformed / used / revoked cookie: nobody is authenticated and the cookie is removed
	if o.UIDAfter() != "" {
		st.Report(engine.Violation{Rule: "C07/dead-cookie-authenticated", Attrs: "cookie=" + class,
			Detail: fmt.Sprintf("browser %s presented a %s remember cookie and became logged in as %q", b, class, o.UIDAfter())})
	}
	if c2 != "" {
		st.Report(engine.Violation{Rule: "C07/dead-cookie-not-deleted", Attrs: "cookie=" + class,
			Detail: fmt.Sprintf("a %s remember cookie was not deleted from the client", class)})
	}
}

func tokenRowHas(w *world.World, h string) bool {
	for _, l := range w.DB.Tokens {
		for _, t := range l {
			if t == h {
				return true
			}
		}
	}
	return false
}

func pidClass(pid string) string {
	switch {
	case strings.HasPrefix(pid, "oauth2;;"):
		return "oauth2-built"
	case strings.Contains(pid, ";"):
		return "contains-semicolon"
	case len(pid) == 1:
		return "one-byte"
	case strings.ContainsAny(pid, "\x00\xff"):
		return "binary"
	}
	return "plain"
}

func cookieClass(w *world.World, c string) string {
	if sec := w.Truth.ByVal("rm", c); sec != nil {
		if sec.Dead {
			return "dead(" + sec.Why + ")"
		}
		if sec.Owner == "" {
			return "no-server-row"
		}
		return "live"
	}
	return w.Truth.Flags["c07:cookie-class:"+c]
}

func c07Cover(st *engine.Step) []string {
	o := st.Obs
	if o == nil {
		return nil
	}
	var cs []string
	tag := o.Req.Tag
	c := o.CookBefore["rm"]
	if c2 := o.CookAfter["rm"]; c2 != "" && c2 != c && o.UIDBefore() != "" || (c == "" && o.CookAfter["rm"] != "") {
		cs = append(cs, "cookie-issued:"+tag.Kind)
	}
	if probeKinds[tag.Kind] && o.UIDBefore() == "" && c != "" {
		cl := cookieClass(st.Pre, c)
		if cl == "live" {
			cs = append(cs, "cookie-used:live:"+pidClass(st.Pre.Truth.ByVal("rm", c).Owner))
			if tag.Kind == "full" {
				cs = append(cs, "full-route-with-cookie-only")
			}
		} else {
			cs = append(cs, "cookie-used:"+cl)
		}
	}
	return cs
}

// setCookie plants a crafted cookie value in a browser.
func setCookie(b, class string, val func(w *world.World) string) engine.Action {
	return flows.Env("set-cookie("+b+","+class+")", func(s *world.Stack, w *world.World) {
		v := val(w)
		w.Browsers[b].Cookies["rm"] = v
		w.Truth.Flags["c07:cookie-class:"+v] = class
	})
}

func c07Scenarios(tier string) []engine.Scenario {
	depth := 5
	if tier == "thorough" {
		depth = 6
	}
	pids := []string{"a@x.io", "semi;colon@x.io", ";lead@x.io", "a;;b@x.io"}
	if tier == "thorough" {
		pids = append(pids, "trail@x.io;", "x", "nul\x00byte\xff@x.io")
	}
	var out []engine.Scenario
	type pv struct {
		pid      string
		nilState bool
	}
	var pvs []pv
	for _, x := range pids {
		pvs = append(pvs, pv{x, false})
	}
	// a session store that has no state at all for a browser without a session (ReadState returns nil)
	pvs = append(pvs, pv{"a@x.io", true})
	for vi, v := range pvs {
		x := v.pid
		rich := vi == 0 || tier == "thorough" // the widest menu on one identifier class (quick), on all (thorough)
		name := "pid=" + fmt.Sprintf("%q", x)
		if v.nilState {
			name += ",nil-state-store"
		}
		sc := engine.Scenario{
			Name: name, Depth: depth,
			Cfg: world.Config{Modules: []string{"auth", "remember", "logout"}, ProtFail: authboss.RespondNotFound, NilEmptyState: v.nilState},
			Init: func(s *world.Stack) *world.World {
				w := world.NewWorld("B1", "B2")
				flows.SeedAcct(s, w, flows.Acct{PID: x, Password: P1})
				flows.SeedAcct(s, w, flows.Acct{PID: c07Bystander, Password: P2})
				return w
			},
			Monitor: c07Monitor, Cover: c07Cover,
		}
		sc.Actions = func(s *world.Stack, w *world.World) []engine.Action {
			var a []engine.Action
			for _, rm := range []bool{false, true} {
				n := fmt.Sprintf("login(B1,x,pw:cur,rm=%v)", rm)
				a = append(a, flows.A(n, func(s *world.Stack, _ *world.World) world.Req { return flows.Login(s, "B1", x, P1, rm) }, ""))
			}
			// the remember field present but saying no in another spelling: not a request to be remembered
			for _, v := range []string{"0", "False"} {
				a = append(a, flows.A(fmt.Sprintf("login(B1,x,pw:cur,rm-field=%s)", v), func(s *world.Stack, _ *world.World) world.Req {
					r := flows.Login(s, "B1", x, P1, false)
					f := map[string]string{"rm": v}
					for k, fv := range r.Form {
						f[k] = fv
					}
					r.Form = f
					return r
				}, ""))
			}
			// the bystander logs in, asking to be remembered, on the browser that may hold a session or cookie of the other account
			if rich {
				a = append(a, flows.A("login(B1,bystander,pw:cur,rm=true)", func(s *world.Stack, _ *world.World) world.Req { return flows.Login(s, "B1", c07Bystander, P2, true) }, ""))
			}
			a = append(a, flows.A("login(B2,bystander,pw:cur,rm=true)", func(s *world.Stack, _ *world.World) world.Req { return flows.Login(s, "B2", c07Bystander, P2, true) }, ""))
			for _, b := range bothBrowsers {
				a = append(a, flows.Restart(b))
				a = append(a, simple("open("+b+")", func(s *world.Stack) world.Req { return flows.Open(b) }))
				a = append(a, simple("full("+b+")", func(s *world.Stack) world.Req { return flows.Full(b) }))
				if b == "B2" {
					a = append(a, simple("notmodified("+b+")", func(s *world.Stack) world.Req { return flows.NotModified(b) }))
				}
				a = append(a, simple("logout("+b+")", func(s *world.Stack) world.Req { return flows.Logout(s, b) }))
			}
			a = append(a, flows.Steal("B1", "B2"), flows.Steal("B2", "B1"))
			a = append(a, flows.AdminUpdatePassword(x, P1))
			for _, label := range []string{"db.UseRememberToken", "db.AddRememberToken"} {
				a = append(a, flows.AFault("open(B1)", label, func(s *world.Stack, _ *world.World) world.Req { return flows.Open("B1") }))
				a = append(a, flows.AFault("full(B1)", label, func(s *world.Stack, _ *world.World) world.Req { return flows.Full("B1") }))
			}
			// crafted cookies for B2
			a = append(a,
				setCookie("B2", "not-base64", func(*world.World) string { return "%%%not-base64%%%" }),
				setCookie("B2", "no-separator", func(*world.World) string {
					return base64.URLEncoding.EncodeToString([]byte("justsomebyteswithoutseparator"))
				}),
				setCookie("B2", "pid+zero-nonce", func(*world.World) string {
					return base64.URLEncoding.EncodeToString(append([]byte(x+";"), make([]byte, 32)...))
				}),
			)
			if rich {
				a = append(a,
					setCookie("B2", "pid+short-nonce", func(*world.World) string {
						return base64.URLEncoding.EncodeToString(append([]byte(x+";"), make([]byte, 31)...))
					}),
					setCookie("B2", "pid+long-nonce", func(*world.World) string {
						return base64.URLEncoding.EncodeToString(append([]byte(x+";"), make([]byte, 33)...))
					}),
					setCookie("B2", "pid+empty-nonce", func(*world.World) string { return base64.URLEncoding.EncodeToString([]byte(x + ";")) }),
				)
			}
			if sec := w.Truth.Newest("rm", x, false); sec != nil {
				v := sec.Val
				a = append(a, setCookie("B2", "live-with-flipped-nonce-bit", func(*world.World) string {
					raw, _ := base64.URLEncoding.DecodeString(v)
					raw[len(raw)-1] ^= 1
					return base64.URLEncoding.EncodeToString(raw)
				}))
			}
			if sec := w.Truth.Newest("rm", x, true); sec != nil {
				v := sec.Val
				a = append(a, flows.Env("set-cookie(B2,dead-genuine)", func(s *world.Stack, w *world.World) { w.Browsers["B2"].Cookies["rm"] = v }))
			}
			return a
		}
		sc.Need = []string{"cookie-issued:login", "cookie-used:live:" + pidClass(x), "cookie-used:dead(used)", "cookie-used:not-base64", "full-route-with-cookie-only"}
		out = append(out, sc)
	}

	// the PID the library itself builds for an OAuth2 login, reached through the real flow
	oa := engine.Scenario{
		Name: "pid=oauth2-built", Depth: depth + 1,
		Cfg: world.Config{Modules: []string{"auth", "oauth2", "remember", "logout"}, ProtFail: authboss.RespondNotFound},
		Init: func(s *world.Stack) *world.World {
			w := world.NewWorld("B1", "B2")
			flows.SeedAcct(s, w, flows.Acct{PID: c07Bystander, Password: P2})
			return w
		},
		Model: c07Model, Monitor: c07Monitor, Cover: c07Cover,
		Need: []string{"cookie-issued:oauth_cb", "cookie-used:live:oauth2-built"},
	}
	oa.Actions = func(s *world.Stack, w *world.World) []engine.Action {
		var a []engine.Action
		a = append(a, oauthActs(w, "B1", []string{"google"}, []string{"", "rm=true"}, []string{"c:7"})...)
		for _, b := range bothBrowsers {
			a = append(a, flows.Restart(b))
			a = append(a, simple("open("+b+")", func(s *world.Stack) world.Req { return flows.Open(b) }))
			a = append(a, simple("full("+b+")", func(s *world.Stack) world.Req { return flows.Full(b) }))
			a = append(a, simple("logout("+b+")", func(s *world.Stack) world.Req { return flows.Logout(s, b) }))
		}
		a = append(a, flows.Steal("B1", "B2"))
		return a
	}
	out = append(out, oa)
	return out
}

func init() {
	engine.Register(&engine.Property{
		ID: "C07", Level: "model_checking",
		Rule: "E1 per PID class (plain, containing ';', leading ';', ';;', binary, one byte, OAuth2-built via the real OAuth2 flow) over login(rm) / restart / steal / probe / logout / password update / crafted cookies; oracle = the oracle's own record of live tokens; classes = cookie classes presented and issue kinds",
		Units: func(tier string) []engine.Unit {
			scs := c07Scenarios(tier)
			return e1Units(append(scs, configVariants(scs[:2], tier, "err500", "nomount")...))
		},
		Assumptions: []string{"remember.Middleware wraps the whole application, as the README describes", "bounded depth, 2 accounts, 2 browsers"},
	})
}
