package props

import (
	"fmt"
	"net/url"
	"strings"
	"time"

	"verif/engine"
	"verif/flows"
	"verif/world"
)

// C15 — client-supplied return targets never redirect off-site. E2: every
// string of up to 3 (quick) / 4 (thorough) tokens over a 25-token alphabet x
// delivery (form field / query) x response mode x site scheme on the password
// login; the 3-token set on the OTP, TOTP, SMS flows and on the OAuth2 round
// trip. The emitted Location header / JSON location is resolved with a
// browser-faithful resolver (urlres.go) against the login page URL.

var c15Sigma = []string{"/", "\\", "//", "http:", "https:", "HtTpS:", "javascript:", "evil.test", "site.test", "@", ":", ".", "a", "?", "#", "%2f", "%5c", "\t", "\n", " ", "./", "../", "\x01", "\u00a0", "/../"}

type c15Flow struct {
	name    string
	modules []string
	// prepare brings browser B1 to the state just before the final request.
	prepare func(s *world.Stack, w *world.World)
	// final builds the last request carrying the return target.
	final     func(s *world.Stack, w *world.World, target string, viaQuery bool) []world.Req
	queryOnly bool
}

func withRedir(rq world.Req, target string, viaQuery bool) world.Req {
	if viaQuery {
		sep := "?"
		if strings.Contains(rq.Path, "?") {
			sep = "&"
		}
		rq.Path += sep + "redir=" + url.QueryEscape(target)
	} else {
		f := map[string]string{}
		for k, v := range rq.Form {
			f[k] = v
		}
		f["redir"] = target
		rq.Form = f
	}
	return rq
}

func c15Flows() []c15Flow {
	return []c15Flow{
		{name: "login", modules: []string{"auth"},
			final: func(s *world.Stack, w *world.World, t string, q bool) []world.Req {
				return []world.Req{withRedir(flows.Login(s, "B1", U1, P1, false), t, q)}
			}},
		{name: "otp", modules: []string{"auth", "otp"},
			final: func(s *world.Stack, w *world.World, t string, q bool) []world.Req {
				return []world.Req{withRedir(flows.OTPLogin(s, "B1", U1, "11111111-22222222-33333333-44444444", false), t, q)}
			}},
		{name: "totp", modules: []string{"auth", "totp2fa", "recovery"},
			prepare: func(s *world.Stack, w *world.World) { flows.Exec(s, w, flows.Login(s, "B1", U1, P1, false), "") },
			final: func(s *world.Stack, w *world.World, t string, q bool) []world.Req {
				return []world.Req{withRedir(flows.TOTPValidate(s, "B1", flows.TOTPCode(w, flows.TOTPSecrets[0], 0), ""), t, q)}
			}},
		{name: "sms", modules: []string{"auth", "sms2fa", "recovery"},
			prepare: func(s *world.Stack, w *world.World) { flows.Exec(s, w, flows.Login(s, "B1", U1, P1, false), "") },
			final: func(s *world.Stack, w *world.World, t string, q bool) []world.Req {
				return []world.Req{withRedir(flows.SMSValidate(s, "B1", w.Browsers["B1"].Session["sms_secret"], ""), t, q)}
			}},
		{name: "hijack-roundtrip", modules: []string{"auth", "totp2fa", "recovery"}, queryOnly: true,
			// the value travels: POST /login?redir=X -> redirect to /2fa/totp/validate?redir=X -> POST there
			final: func(s *world.Stack, w *world.World, t string, q bool) []world.Req {
				return []world.Req{withRedir(flows.Login(s, "B1", U1, P1, false), t, true), {Browser: "B1", Method: "POST", Path: "@follow", Form: map[string]string{"code": "@totp"}}}
			}},
		{name: "oauth2-roundtrip+param", modules: []string{"auth", "oauth2"}, queryOnly: true,
			final: func(s *world.Stack, w *world.World, t string, q bool) []world.Req {
				return []world.Req{flows.OAuthStart(s, "B1", "google", "cake=yes&redir="+url.QueryEscape(t)), {Browser: "B1", Method: "GET", Path: "@oauth-callback"}}
			}},
		{name: "oauth2-roundtrip", modules: []string{"auth", "oauth2"}, queryOnly: true,
			final: func(s *world.Stack, w *world.World, t string, q bool) []world.Req {
				return []world.Req{flows.OAuthStart(s, "B1", "google", "redir="+url.QueryEscape(t)), {Browser: "B1", Method: "GET", Path: "@oauth-callback"}}
			}},
		// the provider answers with an error: wherever the flow sends the browser then, it is on this site
		{name: "oauth2-roundtrip+provider-error", modules: []string{"auth", "oauth2"}, queryOnly: true,
			final: func(s *world.Stack, w *world.World, t string, q bool) []world.Req {
				return []world.Req{flows.OAuthStart(s, "B1", "google", "redir="+url.QueryEscape(t)), {Browser: "B1", Method: "GET", Path: "@oauth-callback-error"}}
			}},
		// the parameter repeated next to a harmless same-site value: whichever occurrence the flow follows must be the one it vets
		{name: "oauth2-roundtrip+dup-last", modules: []string{"auth", "oauth2"}, queryOnly: true,
			final: func(s *world.Stack, w *world.World, t string, q bool) []world.Req {
				return []world.Req{flows.OAuthStart(s, "B1", "google", "redir=%2Fhome&redir="+url.QueryEscape(t)), {Browser: "B1", Method: "GET", Path: "@oauth-callback"}}
			}},
		{name: "oauth2-roundtrip+dup-first", modules: []string{"auth", "oauth2"}, queryOnly: true,
			final: func(s *world.Stack, w *world.World, t string, q bool) []world.Req {
				return []world.Req{flows.OAuthStart(s, "B1", "google", "redir="+url.QueryEscape(t)+"&redir=%2Fhome"), {Browser: "B1", Method: "GET", Path: "@oauth-callback"}}
			}},
		{name: "login+dup-last", modules: []string{"auth"}, queryOnly: true,
			final: func(s *world.Stack, w *world.World, t string, q bool) []world.Req {
				return []world.Req{withRedir(withRedir(flows.Login(s, "B1", U1, P1, false), "/home", true), t, true)}
			}},
		{name: "login+dup-first", modules: []string{"auth"}, queryOnly: true,
			final: func(s *world.Stack, w *world.World, t string, q bool) []world.Req {
				return []world.Req{withRedir(withRedir(flows.Login(s, "B1", U1, P1, false), t, true), "/home", true)}
			}},
		{name: "login+form-and-query", modules: []string{"auth"},
			// viaQuery: the candidate travels in the query and the harmless value in the form, else the reverse
			final: func(s *world.Stack, w *world.World, t string, q bool) []world.Req {
				return []world.Req{withRedir(withRedir(flows.Login(s, "B1", U1, P1, false), "/home", !q), t, q)}
			}},
	}
}

func c15Strings(maxTok int, first int) []string {
	var out []string
	var rec func(prefix string, depth int)
	rec = func(prefix string, depth int) {
		out = append(out, prefix)
		if depth == maxTok {
			// the longest strings are also tried with the foreign host appended (one more token, fixed)
			if !strings.HasSuffix(prefix, "evil.test") {
				out = append(out, prefix+"evil.test", prefix+"evil.test/?a=1", prefix+"\\evil.test")
			}
			if strings.HasSuffix(prefix, "site.test") {
				out = append(out, prefix+"//evil.test/x") // an absolute URL of this very site whose path starts with two slashes
			}
			return
		}
		for _, t := range c15Sigma {
			rec(prefix+t, depth+1)
		}
	}
	rec(c15Sigma[first], 1)
	return out
}

func c15Run(flow c15Flow, maxTok, first int, jsonMode bool, scheme string, dl time.Time) engine.UnitResult {
	res := engine.UnitResult{Exhaustive: true, Distinct: map[string]bool{}, Cover: map[string]int{}}
	t0 := time.Now()
	if bad := resolverSelfTest(); bad != "" {
		res.Violations = append(res.Violations, engine.Violation{Rule: "harness/url-resolver-self-test", Detail: bad})
		return res
	}
	cfg := world.Config{Modules: flow.modules, JSON: jsonMode, RootURL: scheme + "://site.test"}
	s, err := world.NewStack(cfg)
	if err != nil {
		res.Violations = append(res.Violations, engine.Violation{Rule: "harness/init", Detail: err.Error()})
		return res
	}
	base := world.NewWorld("B1")
	acct := flows.Acct{PID: U1, Password: P1, OTPs: []string{"11111111-22222222-33333333-44444444"}}
	for _, m := range flow.modules {
		if m == "totp2fa" {
			acct.TOTPSecret = flows.TOTPSecrets[0]
		}
		if m == "sms2fa" {
			acct.SMSNumber = N1
		}
	}
	flows.SeedAcct(s, base, acct)
	if flow.prepare != nil {
		flow.prepare(s, base)
	}
	sigSeen := map[string]bool{}
	for _, target := range c15Strings(maxTok, first) {
		for _, viaQuery := range []bool{false, true} {
			if (flow.queryOnly || jsonMode) && !viaQuery {
				continue // the JSON body is not consulted for the parameter; round trips carry it in the query
			}
			if res.Evaluations%512 == 0 && !dl.IsZero() && time.Now().After(dl) {
				res.Exhaustive, res.CapHit = false, "deadline"
				res.WallS = time.Since(t0).Seconds()
				return res
			}
			w := base.Clone()
			var o *world.Obs
			sent := true
			for _, rq := range flow.final(s, w, target, viaQuery) {
				switch rq.Path {
				case "@follow":
					if o == nil || o.Location == "" || !strings.HasPrefix(o.Location, "/auth/2fa/") {
						sent = false
						break
					}
					rq.Path = o.Location
					rq.Form = map[string]string{"code": flows.TOTPCode(w, flows.TOTPSecrets[0], 0)}
					rq.Tag.Kind = "totp_validate"
				case "@oauth-callback":
					st := w.Browsers["B1"].Session["oauth2_state"]
					rq = flows.OAuthCallback(s, "B1", "google", st, "c:7", "")
				case "@oauth-callback-error":
					st := w.Browsers["B1"].Session["oauth2_state"]
					rq = flows.OAuthCallback(s, "B1", "google", st, "", "access_denied")
				}
				if !sent {
					break
				}
				o = flows.Exec(s, w, rq, "")
				if o.Status == -1 {
					sent = false
					break
				}
			}
			if !sent || o == nil {
				continue
			}
			res.Evaluations++
			loc := o.Location
			if o.Header.Get("Location") != "" {
				// net/http replaces CR and LF in header values by spaces when it writes them
				loc = strings.NewReplacer("\r", " ", "\n", " ").Replace(o.Header.Get("Location"))
			}
			if loc == "" {
				res.Cover["no-redirect"]++
				continue
			}
			class, sch, host := resolveOrigin(loc, scheme, "site.test")
			tclass, _, _ := resolveOrigin(target, scheme, "site.test")
			res.Distinct["target:"+tclass+"=>response:"+class] = true
			res.Cover["target:"+tclass+"=>response:"+class]++
			if class != "same-site" {
				form := c15Shape(target)
				sig := "C15/off-site/flow=" + flow.name + "/class=" + form
				if !sigSeen[sig] {
					sigSeen[sig] = true
					mode := "form"
					if jsonMode {
						mode = "json"
					}
					res.Violations = append(res.Violations, engine.Violation{Rule: "C15/off-site", Attrs: "flow=" + flow.name + ",class=" + form,
						Detail: fmt.Sprintf("flow %s (%s mode, site %s://site.test, parameter via query=%v): return target %q was answered with location %q, which a browser resolves to %s://%s (%s)", flow.name, mode, scheme, viaQuery, target, loc, sch, host, class),
						Scen:   flow.name, Path: []string{fmt.Sprintf("target=%q mode=%s scheme=%s viaQuery=%v", target, mode, scheme, viaQuery)}})
				}
			}
		}
	}
	res.Samples = []interface{}{fmt.Sprintf("flow=%s first-token=%q json=%v scheme=%s", flow.name, c15Sigma[first], jsonMode, scheme)}
	res.WallS = time.Since(t0).Seconds()
	return res
}

// c15Shape names the spelling class of an off-site target (signature attribute).
func c15Shape(t string) string {
	s := strings.TrimLeft(t, " \t\n\x01\u00a0")
	clean := strings.NewReplacer("\t", "", "\n", "").Replace(s)
	ctl := ""
	if clean != s || s != t {
		ctl = "+control-chars"
	}
	low := strings.ToLower(clean)
	switch {
	case strings.Contains(low, "://") || strings.Contains(low, ":\\\\") || strings.Contains(low, ":/\\") || strings.Contains(low, ":\\/"):
		return "absolute-url" + ctl
	case strings.HasPrefix(low, "javascript:"):
		return "javascript-scheme" + ctl
	case strings.HasPrefix(low, "http:") || strings.HasPrefix(low, "https:"):
		return "scheme-without-slashes" + ctl
	case strings.HasPrefix(clean, "//"):
		return "scheme-relative" + ctl
	case strings.HasPrefix(clean, "/\\") || strings.HasPrefix(clean, "\\/") || strings.HasPrefix(clean, "\\\\"):
		return "scheme-relative-backslash" + ctl
	}
	return "other" + ctl
}

func c15Units(tier string) []engine.Unit {
	var us []engine.Unit
	for _, flow := range c15Flows() {
		maxTok := 3
		if tier == "thorough" && (flow.name == "login" || flow.name == "oauth2-roundtrip" || flow.name == "oauth2-roundtrip+param" || flow.name == "oauth2-roundtrip+dup-last") {
			maxTok = 4
		}
		if tier != "thorough" && flow.name == "login" {
			maxTok = 3
		}
		for _, jsonMode := range []bool{false, true} {
			if jsonMode && (strings.HasPrefix(flow.name, "oauth2-roundtrip") || flow.name == "hijack-roundtrip" || strings.HasPrefix(flow.name, "login+")) {
				continue // browser round trips are form-mode flows
			}
			for _, scheme := range []string{"http", "https"} {
				if scheme == "https" && tier != "thorough" && flow.name != "login" && !strings.HasPrefix(flow.name, "oauth2-roundtrip") {
					continue
				}
				firsts := len(c15Sigma)
				group := 6 // first tokens per unit
				if maxTok == 4 {
					group = 1
				}
				for f0 := 0; f0 < firsts; f0 += group {
					flow, jsonMode, scheme, f0, maxTok := flow, jsonMode, scheme, f0, maxTok
					us = append(us, engine.Unit{
						Name: fmt.Sprintf("%s,json=%v,%s,first=%d..%d,len<=%d", flow.name, jsonMode, scheme, f0, f0+group-1, maxTok),
						Run: func(dl time.Time) engine.UnitResult {
							var total engine.UnitResult
							total.Exhaustive, total.Distinct, total.Cover = true, map[string]bool{}, map[string]int{}
							for f := f0; f < f0+group && f < firsts; f++ {
								r := c15Run(flow, maxTok, f, jsonMode, scheme, dl)
								total.Evaluations += r.Evaluations
								total.Violations = append(total.Violations, r.Violations...)
								for k := range r.Distinct {
									total.Distinct[k] = true
								}
								for k, v := range r.Cover {
									total.Cover[k] += v
								}
								if !r.Exhaustive {
									total.Exhaustive, total.CapHit = false, r.CapHit
								}
								total.Samples = r.Samples
								total.WallS += r.WallS
							}
							return total
						}})
				}
			}
		}
	}
	return us
}

func init() {
	engine.Register(&engine.Property{
		ID: "C15", Level: "exploration",
		Rule:        "every string of up to 3 (4 in the thorough tier for the login and OAuth2 flows) tokens (the longest ones also with the foreign host, the host plus a query of its own, and backslash + host appended) over a 25-token alphabet (slashes, backslashes, schemes in mixed case, javascript:, hosts, @ : . ? #, percent-encoded separators, ./ ../ and /../, TAB, LF, space, the C0 control 0x01, the non-ASCII space U+00A0) as the return target of each flow that follows it (password, OTP, TOTP, SMS, hijack round trip, OAuth2 round trip), delivered as form field, as query, and as a repeated parameter next to a harmless value (either order; form field vs query), form and JSON modes, http and https site; Location / JSON location resolved with a WHATWG-faithful resolver; classes = (target class => response class) pairs",
		Units:       c15Units,
		Need:        []string{"target:off-site-host=>response:same-site", "target:same-site=>response:same-site"},
		Assumptions: []string{"the resolver is conservative: unparsable values count as same-site", "honouring or ignoring a same-site value are both accepted (safety only)"},
	})
}
