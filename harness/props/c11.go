package props

import (
	"fmt"
	"net/http"
	"strings"
	"time"

	"github.com/volatiletech/authboss/v3"
	"verif/engine"
)

// C11 — session/cookie changes reach the client exactly once, in order, before
// the body. E2 over handler programs: every sequence (up to a length) over 13
// operations runs inside the real LoadClientStateMiddleware with recording
// stores and a recording underlying writer that share one timeline; the outcome
// is compared with reference list semantics.

type c11Op int

const (
	opPutS1 c11Op = iota
	opPutS2
	opDelS1
	opDelAllS
	opPutC
	opDelC
	opReadS
	opReadC
	opHeader200
	opHeader302
	opWrite
	opWrapU
	opWrapW
	opFlush
	opHeader304
	opPutS1Same
	opPutCSame
	c11NumOps
)

var c11Names = [...]string{"PutS(k1,n1)", "PutS(k2,n2)", "DelS(k1)", "DelAllS(keep)", "PutC(rm,c1)", "DelC(rm)", "ReadS(k1)", "ReadC(rm)", "WriteHeader(200)", "WriteHeader(302)", "Write(x)", "WrapU", "WrapW", "FlushIfFlusher", "WriteHeader(304)", "PutS(k1,v1=arrived-with)", "PutC(rm,c0=arrived-with)"}

type c11Entry struct {
	kind string // S | C | H | B
	evs  []authboss.ClientStateEvent
}

type c11Timeline struct{ e []c11Entry }

type c11Store struct {
	tl    *c11Timeline
	kind  string
	state c11State
	fail  bool // WriteState records the call and then reports an error
}

type c11State map[string]string

func (s c11State) Get(k string) (string, bool) { v, ok := s[k]; return v, ok }

func (s *c11Store) ReadState(*http.Request) (authboss.ClientState, error) { return s.state, nil }
func (s *c11Store) WriteState(_ http.ResponseWriter, _ authboss.ClientState, evs []authboss.ClientStateEvent) error {
	s.tl.e = append(s.tl.e, c11Entry{kind: s.kind, evs: append([]authboss.ClientStateEvent(nil), evs...)})
	if s.fail {
		return fmt.Errorf("store failure")
	}
	return nil
}

type c11Writer struct {
	tl *c11Timeline
	h  http.Header
}

func (w *c11Writer) Header() http.Header { return w.h }
func (w *c11Writer) WriteHeader(int)     { w.tl.e = append(w.tl.e, c11Entry{kind: "H"}) }

// Flush releases the header (and any buffered body) to the client.
func (w *c11Writer) Flush() { w.tl.e = append(w.tl.e, c11Entry{kind: "H"}) }

func (w *c11Writer) Write(b []byte) (int, error) {
	w.tl.e = append(w.tl.e, c11Entry{kind: "B"})
	return len(b), nil
}

type c11WrapU struct{ http.ResponseWriter }

func (w c11WrapU) UnderlyingResponseWriter() http.ResponseWriter { return w.ResponseWriter }

type c11WrapW struct{ http.ResponseWriter }

func (w c11WrapW) Unwrap() http.ResponseWriter { return w.ResponseWriter }

func c11ProgString(p []c11Op) string {
	var parts []string
	for _, o := range p {
		parts = append(parts, c11Names[o])
	}
	return strings.Join(parts, " ; ")
}

func evEq(a, b []authboss.ClientStateEvent) bool {
	if len(a) != len(b) {
		return false
	}
	for i := range a {
		if a[i] != b[i] {
			return false
		}
	}
	return true
}

func c11Run(first int, maxLen int, dl time.Time) engine.UnitResult {
	faultLen := maxLen - 2
	res := engine.UnitResult{Exhaustive: true, Distinct: map[string]bool{}, Cover: map[string]int{}}
	t0 := time.Now()
	tl := &c11Timeline{}
	ab := authboss.New()
	sess := &c11Store{tl: tl, kind: "S", state: c11State{"k1": "v1"}}
	cook := &c11Store{tl: tl, kind: "C", state: c11State{"rm": "c0"}}
	ab.Config.Storage.SessionState = sess
	ab.Config.Storage.CookieState = cook
	ab.Config.Core.Logger = nopLogger{}

	var prog []c11Op
	var wantS, wantC []authboss.ClientStateEvent
	var readBad string
	handler := ab.LoadClientStateMiddleware(http.HandlerFunc(func(w http.ResponseWriter, r *http.Request) {
		wrote := false
		for _, op := range prog {
			switch op {
			case opPutS1:
				authboss.PutSession(w, "k1", "n1")
				if !wrote {
					wantS = append(wantS, authboss.ClientStateEvent{Kind: authboss.ClientStateEventPut, Key: "k1", Value: "n1"})
				}
			case opPutS1Same:
				// the value the request arrived with, written again (after a delete it is not a no-op)
				authboss.PutSession(w, "k1", "v1")
				if !wrote {
					wantS = append(wantS, authboss.ClientStateEvent{Kind: authboss.ClientStateEventPut, Key: "k1", Value: "v1"})
				}
			case opPutCSame:
				authboss.PutCookie(w, "rm", "c0")
				if !wrote {
					wantC = append(wantC, authboss.ClientStateEvent{Kind: authboss.ClientStateEventPut, Key: "rm", Value: "c0"})
				}
			case opPutS2:
				authboss.PutSession(w, "k2", "n2")
				if !wrote {
					wantS = append(wantS, authboss.ClientStateEvent{Kind: authboss.ClientStateEventPut, Key: "k2", Value: "n2"})
				}
			case opDelS1:
				authboss.DelSession(w, "k1")
				if !wrote {
					wantS = append(wantS, authboss.ClientStateEvent{Kind: authboss.ClientStateEventDel, Key: "k1"})
				}
			case opDelAllS:
				authboss.DelAllSession(w, []string{"keep", "theme"})
				if !wrote {
					wantS = append(wantS, authboss.ClientStateEvent{Kind: authboss.ClientStateEventDelAll, Key: "keep,theme"})
				}
			case opPutC:
				authboss.PutCookie(w, "rm", "c1")
				if !wrote {
					wantC = append(wantC, authboss.ClientStateEvent{Kind: authboss.ClientStateEventPut, Key: "rm", Value: "c1"})
				}
			case opDelC:
				authboss.DelCookie(w, "rm")
				if !wrote {
					wantC = append(wantC, authboss.ClientStateEvent{Kind: authboss.ClientStateEventDel, Key: "rm"})
				}
			case opReadS:
				if v, ok := authboss.GetSession(r, "k1"); !ok || v != "v1" {
					readBad = fmt.Sprintf("GetSession(k1) = %q,%v", v, ok)
				}
			case opReadC:
				if v, ok := authboss.GetCookie(r, "rm"); !ok || v != "c0" {
					readBad = fmt.Sprintf("GetCookie(rm) = %q,%v", v, ok)
				}
			case opHeader200:
				w.WriteHeader(200)
				wrote = true
			case opHeader302:
				w.WriteHeader(302)
				wrote = true
			case opHeader304:
				w.WriteHeader(304) // a revalidation answer carries the state changes like any other
				wrote = true
			case opWrite:
				w.Write([]byte("x"))
				wrote = true
			case opFlush:
				// what a streaming handler does; a writer that offers Flush must treat it as a write
				if f, ok := w.(http.Flusher); ok {
					f.Flush()
					wrote = true
				}
			case opWrapU:
				w = c11WrapU{w}
			case opWrapW:
				w = c11WrapW{w}
			}
		}
	}))
	req, _ := http.NewRequest("GET", "http://site.test/", nil)
	under := &c11Writer{tl: tl, h: http.Header{}}

	// checkFault: the same program with one store failing. A failing store makes
	// WriteHeader panic (documented contract) and Write return the error; the
	// property that remains is "never delivered twice, never after the first byte".
	checkFault := func(which string) {
		res.Evaluations++
		tl.e = tl.e[:0]
		wantS, wantC, readBad = wantS[:0], wantC[:0], ""
		sess.fail, cook.fail = which == "S", which == "C"
		func() {
			defer func() { recover() }()
			handler.ServeHTTP(under, req)
		}()
		sess.fail, cook.fail = false, false
		nS, nC, first := 0, 0, -1
		for i, e := range tl.e {
			switch e.kind {
			case "H", "B":
				if first < 0 {
					first = i
				}
			case "S":
				nS++
			case "C":
				nC++
			}
			if (e.kind == "S" || e.kind == "C") && first >= 0 && len(res.Violations) < 30 {
				res.Violations = append(res.Violations, engine.Violation{Rule: "C11/state-after-first-byte", Attrs: "store-failure=" + which, Detail: "with a failing store a WriteState happened after a byte was released | program: " + c11ProgString(prog), Scen: "programs", Path: []string{c11ProgString(prog)}})
			}
		}
		if (nS > 1 || nC > 1) && len(res.Violations) < 30 {
			res.Violations = append(res.Violations, engine.Violation{Rule: "C11/delivered-twice", Attrs: "store-failure=" + which,
				Detail: fmt.Sprintf("with the %s store failing, the session store received %d and the cookie store %d WriteState calls (at most one each) | program: %s", which, nS, nC, c11ProgString(prog)), Scen: "programs", Path: []string{c11ProgString(prog)}})
		}
		res.Cover["store-failure:"+which]++
	}
	check := func() {
		res.Evaluations++
		tl.e = tl.e[:0]
		wantS, wantC, readBad = wantS[:0], wantC[:0], ""
		var panicked interface{}
		func() {
			defer func() { panicked = recover() }()
			handler.ServeHTTP(under, req)
		}()
		report := func(rule, detail string) {
			if len(res.Violations) < 30 {
				res.Violations = append(res.Violations, engine.Violation{Rule: "C11/" + rule, Detail: detail + " | program: " + c11ProgString(prog), Scen: "programs", Path: []string{c11ProgString(prog)}})
			}
		}
		if panicked != nil {
			report("panic", fmt.Sprint(panicked))
			return
		}
		if readBad != "" {
			report("read-not-initial-value", readBad)
		}
		firstByte := -1
		var gotS, gotC [][]authboss.ClientStateEvent
		for i, e := range tl.e {
			switch e.kind {
			case "H", "B":
				if firstByte < 0 {
					firstByte = i
				}
			case "S":
				gotS = append(gotS, e.evs)
				if firstByte >= 0 {
					report("state-after-first-byte", "a session WriteState happened after a header/body byte was released")
				}
			case "C":
				gotC = append(gotC, e.evs)
				if firstByte >= 0 {
					report("state-after-first-byte", "a cookie WriteState happened after a header/body byte was released")
				}
			}
		}
		wrote := firstByte >= 0
		expS, expC := 0, 0
		if wrote && len(wantS) > 0 {
			expS = 1
		}
		if wrote && len(wantC) > 0 {
			expC = 1
		}
		if len(gotS) != expS {
			report("session-delivery-count", fmt.Sprintf("session store received %d WriteState calls, want %d", len(gotS), expS))
		} else if expS == 1 && !evEq(gotS[0], wantS) {
			report("session-events", fmt.Sprintf("session store received %v, want %v", gotS[0], wantS))
		}
		if len(gotC) != expC {
			report("cookie-delivery-count", fmt.Sprintf("cookie store received %d WriteState calls, want %d", len(gotC), expC))
		} else if expC == 1 && !evEq(gotC[0], wantC) {
			report("cookie-events", fmt.Sprintf("cookie store received %v, want %v", gotC[0], wantC))
		}
		class := fmt.Sprintf("s%d,c%d,wrote=%v", len(wantS), len(wantC), wrote)
		res.Distinct[class] = true
		res.Cover[class]++
	}

	// enumerate all programs whose first op is `first` (first == -1: the empty program)
	if first < 0 {
		prog = nil
		check()
	} else {
		for L := 1; L <= maxLen; L++ {
			prog = make([]c11Op, L)
			prog[0] = c11Op(first)
			idx := make([]int, L)
			for {
				for i := 1; i < L; i++ {
					prog[i] = c11Op(idx[i])
				}
				check()
				if L <= faultLen {
					checkFault("S")
					checkFault("C")
				}
				if res.Evaluations%65536 == 0 && !dl.IsZero() && time.Now().After(dl) {
					res.Exhaustive, res.CapHit = false, fmt.Sprintf("deadline at length %d", L)
					res.WallS = time.Since(t0).Seconds()
					return res
				}
				// odometer over positions 1..L-1
				p := L - 1
				for p >= 1 {
					idx[p]++
					if idx[p] < int(c11NumOps) {
						break
					}
					idx[p] = 0
					p--
				}
				if p < 1 {
					break
				}
			}
		}
	}
	res.Samples = []interface{}{c11ProgString(prog)}
	res.WallS = time.Since(t0).Seconds()
	return res
}

type nopLogger struct{}

func (nopLogger) Info(string)  {}
func (nopLogger) Error(string) {}

func init() {
	engine.Register(&engine.Property{
		ID: "C11", Level: "exploration",
		Rule: "all handler programs up to the tier's length over 17 operations (put/del/delete-all on the session, put/del on the cookie store, puts of the very values the request arrived with, reads, WriteHeader 200/302/304, Write, two kinds of response-writer wrapper, Flush through the http.Flusher type assertion when the writer offers it) executed inside the real LoadClientStateMiddleware with recording stores; compared with reference list semantics; non-trivial classes = distinct (#session events, #cookie events, wrote?) outcomes",
		Units: func(tier string) []engine.Unit {
			maxLen := 6
			if tier == "thorough" {
				maxLen = 7
			}
			var us []engine.Unit
			for f := -1; f < int(c11NumOps); f++ {
				f := f
				us = append(us, engine.Unit{Name: fmt.Sprintf("first-op=%d,len<=%d", f, maxLen), Run: func(dl time.Time) engine.UnitResult { return c11Run(f, maxLen, dl) }})
			}
			return us
		},
		Assumptions: []string{"store failures and http.ResponseController.Flush are outside the operation alphabet (DESIGN.md 7.12)"},
	})
}
