package props

import (
	"fmt"
	"time"

	"verif/engine"
	"verif/flows"
	"verif/world"
)

// C02 — with a second factor enabled, password knowledge alone never yields a
// session. Two explorations:
//  (1) adversarial reachability: the menu contains only what an attacker who
//      knows the victim's password, owns accounts A (with its own factors and
//      phone) and N, and controls both browsers can do. Invariant: no browser
//      ever holds uid = victim.
//  (2) full-knowledge monitor: the victim's real codes are in the menu; first
//      factor requests naming a 2FA account never set uid, and a validate
//      request sets uid = X only for pending = X with a code valid for X's own
//      factor.

const c02Victim = U1

func c02Monitor(adversarial bool) func(st *engine.Step) {
	return func(st *engine.Step) {
		o := st.Obs
		if o == nil {
			return
		}
		u, u2 := o.UIDBefore(), o.UIDAfter()
		kind := o.Req.Tag.Kind
		if adversarial {
			for _, b := range st.Post.BrowserNames() {
				if st.Post.UID(b) == c02Victim && st.Pre.UID(b) != c02Victim {
					st.Report(engine.Violation{Rule: "C02/victim-session-reached", Attrs: "last=" + kind + ",secret=" + o.Req.Tag.Note,
						Detail: fmt.Sprintf("an adversary holding only the victim's password obtained a session for %s in browser %s (last request: %s %s, code %q)", c02Victim, b, o.Req.Method, o.Req.Path, o.Req.Tag.Secret)})
				}
			}
			return
		}
		if u2 == u || u2 == "" {
			return
		}
		switch kind {
		case "login", "otplogin", "recover_end":
			if has2FA(st.Pre, u2) && justification(st.S, st.Pre, o, u2) != "remember" {
				st.Report(engine.Violation{Rule: "C02/first-factor-yields-session", Attrs: "kind=" + kind,
					Detail: fmt.Sprintf("%s request logged browser %s in as %s although that account has a second factor enabled", kind, o.Req.Browser, u2)})
			}
		case "totp_validate", "sms_validate":
			if j := justification(st.S, st.Pre, o, u2); j == "" {
				st.Report(engine.Violation{Rule: "C02/validate-without-own-factor", Attrs: "kind=" + kind + ",secret=" + o.Req.Tag.Note,
					Detail: fmt.Sprintf("%s completed a login of %s in browser %s with a code that is not valid for that account's own factor (pending totp=%q sms=%q, code=%q recovery=%q)",
						kind, u2, o.Req.Browser, o.SessBefore["totp_pending"], o.SessBefore["sms_pending"], o.Req.Tag.Secret, o.Req.Tag.Recovery)})
			}
		}
	}
}

func c02Cover(st *engine.Step) []string {
	o := st.Obs
	if o == nil {
		return nil
	}
	var c []string
	if o.SessAfter["totp_pending"] == c02Victim || o.SessAfter["sms_pending"] == c02Victim {
		c = append(c, "pending=victim")
	}
	if u2 := o.UIDAfter(); u2 != "" && u2 != o.UIDBefore() {
		if j := justification(st.S, st.Pre, o, u2); j != "" {
			c = append(c, "completed:"+j)
		}
	}
	if o.UIDAfter() == o.UIDBefore() {
		switch o.Req.Tag.Kind {
		case "totp_validate", "sms_validate":
			c = append(c, "rejected:"+o.Req.Tag.Kind)
		}
	}
	return c
}

func c02Scenarios(tier string) []engine.Scenario {
	depth := 4
	if tier == "thorough" {
		depth = 5
	}
	type variant struct {
		name      string
		totp, sms bool
		shared    bool // both accounts registered the same phone number (full scenario only): a code belongs to the login it was sent for
	}
	variants := []variant{{"totp", true, false, false}, {"sms", false, true, false}, {"both", true, true, false}, {"sms-shared-number", false, true, true}}
	var out []engine.Scenario
	for _, v := range variants {
		v := v
		for _, adv := range []bool{true, false} {
			adv := adv
			for _, recLogin := range []bool{false, true} {
				if recLogin && tier != "thorough" && v.name != "sms" {
					continue
				}
				if v.shared && (adv || recLogin) {
					continue // an adversary who reads the shared phone holds the victim's second factor: outside the adversary model
				}
				recLogin := recLogin
				for _, e500 := range []bool{false, true} {
					if e500 && (tier != "thorough" || !adv) {
						continue
					}
					mods := []string{"auth", "otp", "recover"}
					if v.totp {
						mods = append(mods, "totp2fa")
					}
					if v.sms {
						mods = append(mods, "sms2fa")
					}
					mods = append(mods, "recovery", "logout")
					name := "adv-"
					if !adv {
						name = "full-"
					}
					name += v.name
					if recLogin {
						name += "-reclogin"
					}
					if e500 {
						name += "-err500"
					}
					sc := engine.Scenario{
						Name: name, Depth: depth,
						Cfg: world.Config{Modules: mods, RecoverLoginAfter: recLogin, Err500: e500},
						Init: func(s *world.Stack) *world.World {
							w := world.NewWorld("B1", "B2")
							va := flows.Acct{PID: U1, Password: P1, RecoveryCodes: []string{"aaaaa-11111", "bbbbb-22222"}, OTPs: []string{"11111111-22222222-33333333-44444444"}}
							aa := flows.Acct{PID: U2, Password: P2, RecoveryCodes: []string{"ccccc-33333", "ddddd-44444"}, OTPs: []string{"aaaaaaaa-bbbbbbbb-cccccccc-dddddddd"}}
							if v.totp {
								va.TOTPSecret, aa.TOTPSecret = flows.TOTPSecrets[0], flows.TOTPSecrets[1]
							}
							if v.sms {
								va.SMSNumber, aa.SMSNumber = N1, N2
							}
							if v.shared {
								aa.SMSNumber = N1
							}
							flows.SeedAcct(s, w, va)
							flows.SeedAcct(s, w, aa)
							flows.SeedAcct(s, w, flows.Acct{PID: U3, Password: P3})
							return w
						},
						Monitor: c02Monitor(adv), Cover: c02Cover,
					}
					rich := tier == "thorough" || recLogin
					sc.Actions = func(s *world.Stack, w *world.World) []engine.Action {
						var a []engine.Action
						accounts := []string{U1, U2, U3}
						for _, b := range bothBrowsers {
							b := b
							// first factors: the adversary knows every password
							for _, pid := range accounts {
								pid := pid
								if p, ok := curPassword(w, pid); ok {
									a = append(a, flows.A(fmt.Sprintf("login(%s,%s,pw:cur)", b, short(pid)), func(s *world.Stack, _ *world.World) world.Req {
										r := flows.Login(s, b, pid, p, false)
										r.Tag.Note = "pw:cur"
										return r
									}, ""))
								}
							}
							if adv {
								// OTPs: only the attacker's own
								if rich {
									a = append(a, otpLoginActs(w, b, []string{U2}, nil, false)...)
									a = append(a, recoverEndActs(w, b, []string{U2}, P3)...)
								}
								a = append(a, advValidateActs(w, b)...)
							} else {
								a = append(a, otpLoginActs(w, b, []string{U1, U2}, accounts, false)...)
								a = append(a, twofaValidateActs(s, w, b, accounts, []string{N1, N2}, true)...)
								a = append(a, recoverEndActs(w, b, []string{U1}, P3)...)
							}
							a = append(a, simple("logout("+b+")", func(s *world.Stack) world.Req { return flows.Logout(s, b) }))
						}
						if adv {
							if rich {
								a = append(a, flows.A("recover-start(B2,u2)", func(s *world.Stack, _ *world.World) world.Req { return flows.RecoverStart(s, "B2", U2) }, U2))
								a = append(a, waitActs(5*time.Second, 31*time.Second)...)
							}
							a = append(a, waitActs(11*time.Second)...)
						} else {
							a = append(a, flows.A("recover-start(B2,u1)", func(s *world.Stack, _ *world.World) world.Req { return flows.RecoverStart(s, "B2", U1) }, U1))
							a = append(a, waitActs(11*time.Second, 31*time.Second)...)
						}
						return a
					}
					if adv {
						sc.Need = []string{"pending=victim"}
					} else {
						sc.Need = []string{"pending=victim"}
						if v.totp {
							sc.Need = append(sc.Need, "completed:2fa-totp")
						}
						if v.sms && !v.totp {
							sc.Need = append(sc.Need, "completed:2fa-sms")
						}
						sc.Need = append(sc.Need, "completed:2fa-recovery-code")
					}
					out = append(out, sc)
				}
			}
		}
	}
	return out
}

// advValidateActs: what the adversary can type at the validation prompts. It
// holds A's TOTP secret and recovery codes, reads A's phone (N2), and knows
// nothing of the victim's factors.
func advValidateActs(w *world.World, b string) []engine.Action {
	var out []engine.Action
	var totpC []cand
	if r := w.DB.Users[U2]; r.TOTPSecretKey != "" {
		totpC = append(totpC, cand{"totp:of(u2)", flows.TOTPCode(w, r.TOTPSecretKey, 0)})
	}
	totpC = append(totpC, cand{"code:000000", "000000"})
	var rc []cand
	if l := w.Truth.Live("rc", U2); len(l) > 0 {
		rc = append(rc, cand{"rc:of(u2)", l[0].Val})
	}
	if subject(w, b, "totp") != "" {
		for _, c := range totpC {
			c := c
			out = append(out, flows.A(fmt.Sprintf("totp-validate(%s,%s)", b, c.note), func(s *world.Stack, _ *world.World) world.Req {
				r := flows.TOTPValidate(s, b, c.val, "")
				r.Tag.Note = c.note
				return r
			}, ""))
		}
		for _, c := range rc {
			c := c
			out = append(out, flows.A(fmt.Sprintf("totp-validate(%s,%s)", b, c.note), func(s *world.Stack, _ *world.World) world.Req {
				r := flows.TOTPValidate(s, b, "", c.val)
				r.Tag.Note = c.note
				return r
			}, ""))
		}
	}
	if subject(w, b, "sms") != "" {
		out = append(out, flows.A(fmt.Sprintf("sms-validate(%s,resend)", b), func(s *world.Stack, _ *world.World) world.Req {
			r := flows.SMSValidate(s, b, "", "")
			r.Tag.Note = "resend"
			return r
		}, ""))
		for _, c := range smsCands(w, []string{N2}) {
			c := c
			out = append(out, flows.A(fmt.Sprintf("sms-validate(%s,%s)", b, c.note), func(s *world.Stack, _ *world.World) world.Req {
				r := flows.SMSValidate(s, b, c.val, "")
				r.Tag.Note = c.note
				return r
			}, ""))
		}
		for _, c := range rc {
			c := c
			out = append(out, flows.A(fmt.Sprintf("sms-validate(%s,%s)", b, c.note), func(s *world.Stack, _ *world.World) world.Req {
				r := flows.SMSValidate(s, b, "", c.val)
				r.Tag.Note = c.note
				return r
			}, ""))
		}
	}
	return out
}

func init() {
	engine.Register(&engine.Property{
		ID: "C02", Level: "model_checking",
		Rule: "E1: (1) adversary-only action menu, invariant 'no browser holds uid=victim' on every reachable state; (2) full-knowledge menu, per-transition rule on first-factor and validate requests; classes = pending/complete/reject kinds hit",
		Units: func(tier string) []engine.Unit {
			scs := c02Scenarios(tier)
			return e1Units(append(scs, configVariants(scs, tier, "faults:login(|-validate(|recover-end(|otplogin(", "err500", "nil-state", "nomount", "json", "localizer")...))
		},
		Assumptions: []string{
			"adversary model: knows the victim's password, owns accounts A (own TOTP secret / phone / recovery codes / OTPs) and N, controls two browsers, can wait 5/11/31 s; never reads the victim's phone, mailbox, TOTP secret or recovery codes",
			"bounded depth, 3 accounts, 2 browsers",
		},
	})
}
