package props

import (
	"fmt"
	"reflect"
	"regexp"
	"sort"
	"strings"
	"time"

	"github.com/volatiletech/authboss/v3/defaults"
	"golang.org/x/crypto/bcrypt"
	"verif/engine"
	"verif/flows"
	"verif/world"
)

// C19 — registration creates exactly one account, never overwrites, enforces
// the policy. E2: (a) the complete product of submitted field maps against a
// reference validator, from an empty table and from a table holding U1, with
// and without confirm, form and JSON bodies, two whitelists; (b) the rule
// evaluator against an independent reference over all strings up to a length
// over one representative per character class x a grid of rule settings.

type fieldVal struct {
	note    string
	present bool
	val     string
	dup     string // a second value for the same field (form bodies only)
}

var c19EmailRe = regexp.MustCompile(`.*@.*\.[a-z]+`)

func refPasswordOK(pw string) bool {
	var up, lo, di, sy, ws int
	for _, c := range pw {
		switch {
		case c >= 'A' && c <= 'Z':
			up++
		case c >= 'a' && c <= 'z':
			lo++
		case c >= '0' && c <= '9':
			di++
		case c == ' ' || c == '\t' || c == '\n' || c == '\r':
			ws++
		default:
			sy++
		}
	}
	return len(pw) >= 8 && up >= 1 && lo >= 1 && di >= 1 && sy >= 1 && ws == 0
}

func refBlank(s string) bool { return strings.TrimSpace(s) == "" }

func c19Requests(cfgName string, confirm, jsonMode, wideWhitelist bool, dl time.Time) engine.UnitResult {
	res := engine.UnitResult{Exhaustive: true, Distinct: map[string]bool{}, Cover: map[string]int{}}
	t0 := time.Now()
	mods := []string{"auth", "register"}
	if confirm {
		mods = append(mods, "confirm")
	}
	cfg := world.Config{Modules: mods, JSON: jsonMode}
	whitelist := []string{"email", "password"}
	if wideWhitelist {
		whitelist = []string{"email", "password", "name"}
		cfg.RegisterWhitelist = whitelist
	}
	s, err := world.NewStack(cfg)
	if err != nil {
		res.Violations = append(res.Violations, engine.Violation{Rule: "harness/init", Detail: err.Error()})
		return res
	}
	empty := world.NewWorld("B1")
	withU1 := world.NewWorld("B1")
	flows.SeedAcct(s, withU1, flows.Acct{PID: U1, Password: P1})

	emails := []fieldVal{
		{"new", true, "new@x.io", ""}, {"existing", true, U1, ""}, {"case-variant", true, "U1@x.io", ""},
		{"malformed", true, "not-an-address", ""}, {"blank", true, "  ", ""}, {"missing", false, "", ""},
		{"duplicated(new,existing)", true, "new@x.io", U1}, {"duplicated(malformed,new)", true, "nope", "new@x.io"},
	}
	passwords := []fieldVal{
		{"compliant", true, "Abcdef1!", ""}, {"no-upper", true, "abcdef1!", ""}, {"no-lower", true, "ABCDEF1!", ""},
		{"no-digit", true, "Abcdefg!", ""}, {"no-symbol", true, "Abcdefg1", ""}, {"7-bytes", true, "Abcde1!", ""},
		{"whitespace", true, "Abc def1!", ""}, {"surrounding-whitespace", true, " Abcdef1! ", ""}, {"blank", true, "", ""}, {"missing", false, "", ""},
		{"duplicated(weak,compliant)", true, "weak", "Abcdef1!"},
	}
	confirms := []string{"equal", "different", "missing"}
	extraKeys := []string{"name", "is_admin", "confirmed", "emailx", "recover_selector", "Name", "EMAIL"}

	report := func(rule, attrs, detail string, c string) {
		if len(res.Violations) < 40 {
			res.Violations = append(res.Violations, engine.Violation{Rule: "C19/" + rule, Attrs: attrs, Detail: detail + " | case: " + c, Scen: cfgName, Path: []string{c}})
		}
	}

	tables := []*world.World{empty, withU1}
	if confirm {
		// the existing account has not confirmed its address yet (its confirmation token is outstanding)
		unconf := world.NewWorld("B1")
		flows.SeedAcct(s, unconf, flows.Acct{PID: U1, Password: P1, Unconfirmed: true})
		r := unconf.DB.Users[U1]
		r.ConfirmSelector, r.ConfirmVerifier = "c2VsZWN0b3Itb2YtdGhlLW91dHN0YW5kaW5nLXRva2Vu", "dmVyaWZpZXItb2YtdGhlLW91dHN0YW5kaW5nLXRva2Vu"
		unconf.DB.Users[U1] = r
		tables = append(tables, unconf)
	}
	for ti, table := range tables {
		for _, em := range emails {
			for _, pw := range passwords {
				for _, cf := range confirms {
					for mask := 0; mask < 1<<len(extraKeys); mask++ {
						if (em.dup != "" || pw.dup != "") && jsonMode {
							continue // a JSON object cannot carry a field twice
						}
						if res.Evaluations%1024 == 0 && !dl.IsZero() && time.Now().After(dl) {
							res.Exhaustive, res.CapHit = false, "deadline"
							return res
						}
						// build the body
						var pairs [][2]string
						add := func(k, v string) { pairs = append(pairs, [2]string{k, v}) }
						if em.present {
							add("email", em.val)
							if em.dup != "" {
								add("email", em.dup)
							}
						}
						if pw.present {
							add("password", pw.val)
							if pw.dup != "" {
								add("password", pw.dup)
							}
						}
						switch cf {
						case "equal":
							add("confirm_password", pw.val)
						case "different":
							add("confirm_password", pw.val+"x")
						}
						var extras []string
						for i, k := range extraKeys {
							if mask&(1<<i) != 0 {
								add(k, "true")
								extras = append(extras, k)
							}
						}
						caseStr := fmt.Sprintf("table=%d email=%s password=%s confirm=%s extras=%v confirm-module=%v json=%v whitelist=%v", ti, em.note, pw.note, cf, extras, confirm, jsonMode, whitelist)
						rq := world.Req{Browser: "B1", Method: "POST", Path: "/auth/register", Tag: world.Tag{Kind: "register"}}
						if jsonMode {
							m := map[string]string{}
							for _, p := range pairs {
								m[p[0]] = p[1]
							}
							rq.Form = m
						} else {
							var sb strings.Builder
							for i, p := range pairs {
								if i > 0 {
									sb.WriteByte('&')
								}
								sb.WriteString(urlEsc(p[0]) + "=" + urlEsc(p[1]))
							}
							rq.RawBody = sb.String()
							if rq.RawBody == "" {
								rq.RawBody = "x=y"
							}
						}
						w := table.Clone()
						world.TakeLastArbitrary()
						o := flows.Exec(s, w, rq, "")
						arb := world.TakeLastArbitrary()
						res.Evaluations++

						// reference validator (first value of a duplicated field counts)
						pid := em.val
						pass := pw.val
						valid := em.present && !refBlank(pid) && c19EmailRe.MatchString(pid) &&
							pw.present && refPasswordOK(pass) && cf == "equal"
						_, exists := table.DB.Users[pid]
						class := "invalid"
						if valid && exists {
							class = "valid-existing"
						} else if valid {
							class = "valid-new"
						}
						res.Distinct[class+"/"+em.note+"/"+pw.note] = true
						res.Cover[class]++

						if o.Panic != "" {
							report("panic", "", firstLineOf(o.Panic), caseStr)
							continue
						}
						// fault dimension: for every valid request (and the plain invalid ones) each backend call the
						// request makes is failed in turn; the safety half of the statement holds regardless
						if class != "invalid" || mask == 0 {
							for k, call := range o.SeamCalls {
								fw := table.Clone()
								s.FaultAt = k
								fo := flows.Exec(s, fw, rq, "")
								s.FaultAt = -1
								world.TakeLastArbitrary()
								if len(fo.FaultFired) == 0 {
									continue
								}
								res.Evaluations++
								res.Cover["fault:"+class]++
								res.Distinct["fault:"+class+"@"+call] = true
								fcase := caseStr + fmt.Sprintf(" !fault(call #%d %s)", k, call)
								if fo.Panic != "" {
									report("panic", "fault="+call, firstLineOf(fo.Panic), fcase)
									continue
								}
								var added []string
								for u := range fw.DB.Users {
									if _, ok := table.DB.Users[u]; !ok {
										added = append(added, u)
									}
								}
								for u, r := range table.DB.Users {
									if !reflect.DeepEqual(r, fw.DB.Users[u]) {
										report("other-row-changed", "fault="+call, "under a backend failure registration changed the existing row "+u, fcase)
									}
								}
								if class != "valid-new" && (len(added) != 0 || fo.UIDAfter() != "") {
									report("table-changed", "class="+class+",fault="+call, fmt.Sprintf("under a backend failure a registration that must create nothing created %v / logged in %q", added, fo.UIDAfter()), fcase)
								}
								if class == "valid-new" {
									if len(added) > 1 || len(added) == 1 && added[0] != pid {
										report("not-exactly-one-account", "fault="+call, fmt.Sprintf("under a backend failure a valid registration of %q created the rows %v", pid, added), fcase)
									}
									if u := fo.UIDAfter(); u != "" && (confirm || u != pid || len(added) != 1) {
										report("logged-in-before-confirmation", "fault="+call, fmt.Sprintf("under a backend failure the registration logged in %q (confirmation in force: %v, rows created: %v)", u, confirm, added), fcase)
									}
									if len(added) == 1 {
										row := fw.DB.Users[added[0]]
										if row.Password == pass || bcrypt.CompareHashAndPassword([]byte(row.Password), []byte(pass)) != nil {
											report("password-not-hashed", "fault="+call, "under a backend failure the stored password is not a bcrypt hash of the submitted one", fcase)
										}
										if confirm && row.Confirmed {
											report("created-confirmed", "fault="+call, "under a backend failure the new account is stored as confirmed with e-mail confirmation in force", fcase)
										}
									}
								}
							}
						}
						switch class {
						case "invalid", "valid-existing":
							if !dbEqual(table.DB, w.DB) {
								report("table-changed", "class="+class+",email="+em.note+",password="+pw.note, "a registration that must create nothing changed the user table", caseStr)
							}
							if o.UIDAfter() != "" {
								report("logged-in", "class="+class, "a registration that must create nothing logged somebody in: "+o.UIDAfter(), caseStr)
							}
							if errs, _ := o.JSON["errors"].(map[string]interface{}); len(errs) == 0 {
								report("no-validation-errors", "class="+class, fmt.Sprintf("the response carries no validation error map (status %d body %s)", o.Status, trunc(o.Body, 120)), caseStr)
							}
							if len(o.Mails) != 0 {
								report("mail-sent", "class="+class, "a registration that must create nothing sent mail", caseStr)
							}
						case "valid-new":
							var added []string
							for k := range w.DB.Users {
								if _, ok := table.DB.Users[k]; !ok {
									added = append(added, k)
								}
							}
							if len(added) != 1 || added[0] != pid {
								report("not-exactly-one-account", "email="+em.note+",password="+pw.note, fmt.Sprintf("a valid registration of %q created the rows %v", pid, added), caseStr)
								continue
							}
							for k, r := range table.DB.Users {
								if !reflect.DeepEqual(r, w.DB.Users[k]) {
									report("other-row-changed", "", "registration changed the existing row "+k, caseStr)
								}
							}
							row := w.DB.Users[pid]
							if row.Password == pass || bcrypt.CompareHashAndPassword([]byte(row.Password), []byte(pass)) != nil {
								report("password-not-hashed", "", "the stored password is not a bcrypt hash of the submitted one", caseStr)
							}
							var arbKeys []string
							for k := range arb {
								arbKeys = append(arbKeys, k)
							}
							sort.Strings(arbKeys)
							for _, k := range arbKeys {
								ok := false
								for _, wk := range whitelist {
									if wk == k {
										ok = true
									}
								}
								if !ok {
									report("non-whitelisted-field", "field="+k, fmt.Sprintf("PutArbitrary received the non-whitelisted field %q (received keys %v)", k, arbKeys), caseStr)
								}
							}
							if confirm {
								if o.UIDAfter() != "" {
									report("logged-in-before-confirmation", "", "with e-mail confirmation in force the new user was logged in at once", caseStr)
								}
								n := 0
								for _, m := range o.Mails {
									if k, _, ok := world.MailToken(m); ok && k == "ctok" {
										n++
										if len(m.To) != 1 || m.To[0] != pid {
											report("confirm-mail-recipient", "", fmt.Sprintf("confirm mail sent to %v", m.To), caseStr)
										}
									}
								}
								if n != 1 {
									report("confirm-mail-count", "", fmt.Sprintf("%d confirm mails sent", n), caseStr)
								}
								if row.Confirmed {
									report("created-confirmed", "", "with e-mail confirmation in force the new account is stored as confirmed", caseStr)
								}
							} else if o.UIDAfter() != pid {
								report("not-logged-in", "", fmt.Sprintf("without the confirm module the new user must be logged in; session user is %q", o.UIDAfter()), caseStr)
							}
						}
					}
				}
			}
		}
	}
	res.Samples = []interface{}{fmt.Sprintf("config %s: %d requests", cfgName, res.Evaluations)}
	res.WallS = time.Since(t0).Seconds()
	return res
}

func firstLineOf(s string) string {
	if i := strings.IndexByte(s, '\n'); i >= 0 {
		return s[:i]
	}
	return s
}

func trunc(s string, n int) string {
	if len(s) > n {
		return s[:n] + "…"
	}
	return s
}

func urlEsc(s string) string {
	var sb strings.Builder
	for i := 0; i < len(s); i++ {
		c := s[i]
		if (c >= 'a' && c <= 'z') || (c >= 'A' && c <= 'Z') || (c >= '0' && c <= '9') || c == '-' || c == '_' || c == '.' {
			sb.WriteByte(c)
		} else {
			fmt.Fprintf(&sb, "%%%02X", c)
		}
	}
	return sb.String()
}

// ---- (b) rule evaluator

var c19Alphabet = []byte{'A', 'a', '1', '!', ' ', '\t', '\n'}

func c19RefRule(r defaults.Rules, s string) bool {
	var up, lo, di, sy, ws int
	for i := 0; i < len(s); i++ {
		switch s[i] {
		case 'A':
			up++
		case 'a':
			lo++
		case '1':
			di++
		case ' ', '\t', '\n':
			ws++
		default:
			sy++
		}
	}
	if r.Required && ws == len(s) {
		return false
	}
	if r.MinLength > 0 && len(s) < r.MinLength {
		return false
	}
	if r.MaxLength > 0 && len(s) > r.MaxLength {
		return false
	}
	if up+lo < r.MinLetters || up < r.MinUpper || lo < r.MinLower || di < r.MinNumeric || sy < r.MinSymbols {
		return false
	}
	if !r.AllowWhitespace && ws > 0 {
		return false
	}
	return true
}

func c19Rules(shard, nShards, maxLen int, minima []int, dl time.Time) engine.UnitResult {
	res := engine.UnitResult{Exhaustive: true, Distinct: map[string]bool{}, Cover: map[string]int{}}
	t0 := time.Now()
	var rules []defaults.Rules
	for _, req := range []bool{false, true} {
		for _, minLen := range []int{0, 1, 4} {
			for _, maxL := range []int{0, 5} {
				for _, ml := range minima {
					for _, mlo := range minima {
						for _, mu := range minima {
							for _, mn := range minima {
								for _, ms := range minima {
									for _, ws := range []bool{false, true} {
										rules = append(rules, defaults.Rules{FieldName: "f", Required: req, MinLength: minLen, MaxLength: maxL, MinLetters: ml, MinLower: mlo, MinUpper: mu, MinNumeric: mn, MinSymbols: ms, AllowWhitespace: ws})
									}
								}
							}
						}
					}
				}
			}
		}
	}
	// strings of length <= maxLen, enumerated as numbers in base 6; sharded by index
	idx := 0
	for L := 0; L <= maxLen; L++ {
		n := 1
		for i := 0; i < L; i++ {
			n *= len(c19Alphabet)
		}
		buf := make([]byte, L)
		for k := 0; k < n; k++ {
			idx++
			if idx%nShards != shard {
				continue
			}
			x := k
			for i := 0; i < L; i++ {
				buf[i] = c19Alphabet[x%len(c19Alphabet)]
				x /= len(c19Alphabet)
			}
			str := string(buf)
			if !dl.IsZero() && idx%512 == 0 && time.Now().After(dl) {
				res.Exhaustive, res.CapHit = false, "deadline"
				res.WallS = time.Since(t0).Seconds()
				return res
			}
			for ri := range rules {
				r := &rules[ri]
				got := r.IsValid(str)
				want := c19RefRule(*r, str)
				res.Evaluations++
				if got != want && len(res.Violations) < 20 {
					res.Violations = append(res.Violations, engine.Violation{Rule: "C19/rule-evaluator", Attrs: fmt.Sprintf("accepted=%v", got),
						Detail: fmt.Sprintf("Rules%+v on %q: IsValid=%v, the reference (every configured bound, bytes) says %v; errors: %v", *r, str, got, want, r.Errors(str)),
						Scen:   "rules", Path: []string{fmt.Sprintf("%q vs %+v", str, *r)}})
				}
				if want {
					res.Cover["accept"]++
				} else {
					res.Cover["reject"]++
				}
			}
		}
	}
	res.Distinct["accept"], res.Distinct["reject"] = res.Cover["accept"] > 0, res.Cover["reject"] > 0
	res.Samples = []interface{}{fmt.Sprintf("%d rule sets x strings up to length %d (shard %d/%d)", len(rules), maxLen, shard, nShards)}
	res.WallS = time.Since(t0).Seconds()
	return res
}

func init() {
	engine.Register(&engine.Property{
		ID: "C19", Level: "exploration",
		Rule: "(a) complete product of registration bodies: email {new, existing, case variant, malformed, blank, missing, duplicated} x password {compliant, one class short of each minimum, 7 bytes, inner and surrounding whitespace, blank, missing, duplicated} x confirm_password {equal, different, missing} x every subset of 7 hostile extra fields (incl. a name that extends a whitelisted one and whitelisted names in another letter case), from an empty table, one holding the account and (with confirm) one holding it unconfirmed with its token outstanding, with/without confirm, form/JSON, two whitelists, against a reference validator, and for every valid request (and the plain invalid ones) each backend call failed in turn (safety half only); (b) Rules.IsValid against an independent reference for every string up to the tier's length over {A,a,1,!,space,TAB,LF} x a grid of rule settings; classes = (validity class, email class, password class) triples",
		Units: func(tier string) []engine.Unit {
			var us []engine.Unit
			for _, confirm := range []bool{false, true} {
				for _, js := range []bool{false, true} {
					for _, wide := range []bool{false, true} {
						confirm, js, wide := confirm, js, wide
						name := fmt.Sprintf("requests,confirm=%v,json=%v,wide-whitelist=%v", confirm, js, wide)
						us = append(us, engine.Unit{Name: name, Run: func(dl time.Time) engine.UnitResult { return c19Requests(name, confirm, js, wide, dl) }})
					}
				}
			}
			maxLen, minima := 4, []int{0, 1}
			if tier == "thorough" {
				maxLen, minima = 6, []int{0, 1, 2}
			}
			for i := 0; i < 8; i++ {
				i := i
				us = append(us, engine.Unit{Name: fmt.Sprintf("rules#%d/8", i), Run: func(dl time.Time) engine.UnitResult { return c19Rules(i, 8, maxLen, minima, dl) }})
			}
			return us
		},
		Need:        []string{"invalid", "valid-new", "valid-existing", "fault:valid-new", "fault:valid-existing", "accept", "reject"},
		Assumptions: []string{"lengths are counted in bytes and only ASCII class representatives are used (the byte/character distinction is out of scope by the property's quantifier)", "which fields a validation error map names is not compared"},
	})
}
