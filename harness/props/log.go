package props

import "os"

// logw is where debugging transcripts go (stderr: stdout is the worker's JSON result).
var logw = os.Stderr
