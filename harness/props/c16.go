package props

import (
	"fmt"
	"reflect"
	"sort"
	"strings"
	"time"

	"verif/engine"
	"verif/flows"
	"verif/world"
)

// C16 — responses leak neither password correctness when locked nor account
// existence. E1 collects account states (attempt counters, locked / expired
// lock / never locked, outstanding OTPs) x E4: from every distinct state, pairs
// of requests that differ only in the secret (or only in whether the account
// exists) run on two clones; everything the client can observe must be equal.

func jarDelta(before, after map[string]string) map[string]string {
	d := map[string]string{}
	for k, v := range after {
		if bv, ok := before[k]; !ok || bv != v {
			d["+"+k] = v
		}
	}
	for k := range before {
		if _, ok := after[k]; !ok {
			d["-"+k] = ""
		}
	}
	return d
}

// clientView is what the client can observe of a response.
func clientView(o *world.Obs) string {
	var sb strings.Builder
	fmt.Fprintf(&sb, "status=%d\n", o.Status)
	hk := make([]string, 0, len(o.Header))
	for k := range o.Header {
		hk = append(hk, k)
	}
	sort.Strings(hk)
	for _, k := range hk {
		fmt.Fprintf(&sb, "H %s: %q\n", k, o.Header[k])
	}
	fmt.Fprintf(&sb, "body=%q\n", o.Body)
	for _, jar := range []map[string]string{jarDelta(o.SessBefore, o.SessAfter), jarDelta(o.CookBefore, o.CookAfter)} {
		ks := keysOf(jar)
		for _, k := range ks {
			v := jar[k]
			if strings.HasSuffix(k, "rm") && v != "" {
				v = "<fresh-cookie>" // a new random cookie is new in both runs or in neither; its bytes come from the same RNG cursor
			}
			fmt.Fprintf(&sb, "J %s=%q\n", k, v)
		}
		sb.WriteString("--\n")
	}
	return sb.String()
}

func firstDiff(a, b string) string {
	la, lb := strings.Split(a, "\n"), strings.Split(b, "\n")
	for i := 0; i < len(la) && i < len(lb); i++ {
		if la[i] != lb[i] {
			return fmt.Sprintf("%s  <>  %s", la[i], lb[i])
		}
	}
	return "length differs"
}

func c16State(cfg c04cfg) func(st *engine.Step) {
	return func(st *engine.Step) {
		w := st.Post
		s := st.S
		now := w.Now
		var pair func(kind, attrs string, r1, r2 world.Req)
		pair0 := func(kind, attrs string, r1, r2 world.Req) {
			c1, c2 := w.Clone(), w.Clone()
			o1 := flows.Exec(s, c1, r1, "")
			o2 := flows.Exec(s, c2, r2, "")
			st.Count(1, "pair:"+kind)
			v1, v2 := clientView(o1), clientView(o2)
			if v1 != v2 {
				st.Report(engine.Violation{Rule: "C16/" + kind, Attrs: attrs,
					Detail: fmt.Sprintf("the client can tell the two requests apart: %s | request A: %s %s %v | request B: %s %s %v", firstDiff(v1, v2), r1.Method, r1.Path, redact(r1.Form), r2.Method, r2.Path, redact(r2.Form))})
			}
		}
		// every pair is sent plain, and with a client-supplied return target (form field and query)
		pair = func(kind, attrs string, r1, r2 world.Req) {
			pair0(kind, attrs, r1, r2)
			pair0(kind, attrs+",redir=query", withRedir(r1, "/account/settings", true), withRedir(r2, "/account/settings", true))
			if !s.Cfg.JSON {
				pair0(kind, attrs+",redir=form", withRedir(r1, "/account/settings", false), withRedir(r2, "/account/settings", false))
			}
		}
		for _, b := range []string{"B1", "B2"} {
			for _, rm := range []bool{false, true} {
				if rm && !s.Cfg.Has("remember") {
					continue
				}
				at := fmt.Sprintf("browser=%s,rm=%v", b, rm)
				// (a) locked, confirmed account: correct vs incorrect secret
				l := w.DB.Users[U1]
				m := c04Get(w.Truth, U1)
				if l.Confirmed && l.Locked.After(now) && m.lockedUntil.After(now) {
					pair("locked-password-correctness", at, flows.Login(s, b, U1, P1, rm), flows.Login(s, b, U1, "Wr0ng!pass", rm))
					if sec := w.Truth.Newest("otp", U1, false); sec != nil {
						pair("locked-otp-correctness", at, flows.OTPLogin(s, b, U1, sec.Val, rm), flows.OTPLogin(s, b, U1, "00000000-00000000-00000000-00000000", rm))
					}
				}
				// (c) unknown account vs known account with a wrong secret, when the attempt does not lock it
				k := w.DB.Users[U2]
				mk := c04Get(w.Truth, U2)
				wouldCount := 1
				if !mk.last.IsZero() && now.Sub(mk.last) <= cfg.w {
					wouldCount = mk.count + 1
				}
				if !k.Locked.After(now) && !mk.lockedUntil.After(now) && wouldCount < cfg.after && k.Confirmed {
					pair("account-existence-login", at, flows.Login(s, b, U0, "Wr0ng!pass", rm), flows.Login(s, b, U2, "Wr0ng!pass", rm))
					pair("account-existence-otp", at, flows.OTPLogin(s, b, U0, "00000000-00000000-00000000-00000000", rm), flows.OTPLogin(s, b, U2, "00000000-00000000-00000000-00000000", rm))
				}
			}
			// (b) recovery request for an existing vs a non-existing account
			pair("account-existence-recover", "browser="+b, flows.RecoverStart(s, b, U2), flows.RecoverStart(s, b, U0))
			pair("account-existence-recover", "browser="+b+",locked-account", flows.RecoverStart(s, b, U1), flows.RecoverStart(s, b, U0))
			if _, ok := w.DB.Users[U3]; ok {
				pair("account-existence-recover", "browser="+b+",unconfirmed-account", flows.RecoverStart(s, b, U3), flows.RecoverStart(s, b, U0))
			}
			// the same with the mail transport down: what the client sees must not depend on whether a mail was attempted
			s.MailFault = true
			pair0("account-existence-recover", "browser="+b+",mailer-down", flows.RecoverStart(s, b, U2), flows.RecoverStart(s, b, U0))
			s.MailFault = false
		}
	}
}

func redact(f map[string]string) map[string]string {
	out := map[string]string{}
	for k, v := range f {
		out[k] = flows.Label(v)
	}
	return out
}

func c16Scenarios(tier string) []engine.Scenario {
	depth := 4
	if tier == "thorough" {
		depth = 5
	}
	var out []engine.Scenario
	type v struct {
		name   string
		extras []string
		order  string
		after  int
		json   bool
		long   bool // LockWindow 5 min / LockDuration 12 h and a 90 s wait: texts that depend on how long a lock has left
	}
	var vs []v
	subsets := [][]string{nil, {"confirm"}, {"remember"}, {"confirm", "remember", "totp2fa"}}
	if tier == "thorough" {
		subsets = [][]string{nil, {"confirm"}, {"remember"}, {"totp2fa"}, {"confirm", "remember"}, {"confirm", "totp2fa"}, {"remember", "totp2fa"}, {"confirm", "remember", "totp2fa"}}
	}
	for i, sub := range subsets {
		for _, after := range []int{1, 3} {
			for _, js := range []bool{false, true} {
				if tier != "thorough" && (js != (i%2 == 1)) {
					continue
				}
				orders := []string{"lc"}
				if tier == "thorough" && len(sub) > 0 && sub[0] == "confirm" {
					orders = []string{"lc", "cl"}
				}
				for _, ord := range orders {
					vs = append(vs, v{fmt.Sprintf("extras=%v,order=%s,after=%d,json=%v", sub, ord, after, js), sub, ord, after, js, false})
				}
			}
		}
	}
	vs = append(vs, v{"extras=[],order=lc,after=2,json=false,long-durations", nil, "lc", 2, false, true})
	for _, x := range vs {
		cfg := c04cfg{x.after, 10 * time.Second, 30 * time.Second}
		if x.long {
			cfg = c04cfg{x.after, 5 * time.Minute, 12 * time.Hour}
		}
		mods := []string{"auth", "otp", "recover"}
		hasConfirm := false
		for _, e := range x.extras {
			if e == "confirm" {
				hasConfirm = true
			}
		}
		if hasConfirm && x.order == "cl" {
			mods = append(mods, "confirm", "lock")
		} else {
			mods = append(mods, "lock")
			if hasConfirm {
				mods = append(mods, "confirm")
			}
		}
		for _, e := range x.extras {
			switch e {
			case "remember":
				mods = append(mods, "remember")
			case "totp2fa":
				mods = append(mods, "totp2fa", "recovery")
			}
		}
		mods = append(mods, "logout")
		hasTOTP := strings.Contains(x.name, "totp2fa")
		sc := engine.Scenario{
			Name: x.name, Depth: depth, Sat: cfg.d + time.Second,
			Cfg: world.Config{Modules: mods, JSON: x.json, LockAfter: cfg.after, LockWindow: cfg.w, LockDuration: cfg.d},
			Init: func(s *world.Stack) *world.World {
				w := world.NewWorld("B1", "B2")
				a1 := flows.Acct{PID: U1, Password: P1, OTPs: []string{"11111111-22222222-33333333-44444444", "55555555-66666666-77777777-88888888"}}
				a2 := flows.Acct{PID: U2, Password: P2, OTPs: []string{"aaaaaaaa-bbbbbbbb-cccccccc-dddddddd"}}
				if hasTOTP {
					a1.TOTPSecret, a1.RecoveryCodes = flows.TOTPSecrets[0], []string{"aaaaa-11111"}
				}
				flows.SeedAcct(s, w, a1)
				flows.SeedAcct(s, w, a2)
				if hasConfirm {
					// an existing account that never confirmed its address: still indistinguishable from a missing one
					flows.SeedAcct(s, w, flows.Acct{PID: U3, Password: P3, Unconfirmed: true})
				}
				if s.Cfg.Has("remember") && !hasTOTP {
					// browser B1 is back on a remember cookie of u1 (real requests: login with remember-me, restart,
					// first request on the cookie): a half-authenticated session is one more thing a response could touch
					flows.Exec(s, w, flows.Login(s, "B1", U1, P1, true), "")
					w.Browsers["B1"].Session = map[string]string{}
					flows.Exec(s, w, flows.Open("B1"), "")
				}
				return w
			},
			Model: c04ModelStep(cfg), State: c16State(cfg),
		}
		sc.Actions = func(s *world.Stack, w *world.World) []engine.Action {
			b := "B1"
			var a []engine.Action
			for _, pid := range []string{U1, U2} {
				p, _ := curPassword(w, pid)
				a = append(a, flows.A(fmt.Sprintf("login(B1,%s,pw:cur)", short(pid)), func(s *world.Stack, _ *world.World) world.Req {
					r := flows.Login(s, b, pid, p, false)
					r.Tag.Note = "pw:cur"
					return r
				}, ""))
				a = append(a, flows.A(fmt.Sprintf("login(B1,%s,pw:wrong)", short(pid)), func(s *world.Stack, _ *world.World) world.Req {
					r := flows.Login(s, b, pid, "Wr0ng!pass", false)
					r.Tag.Note = "pw:wrong"
					return r
				}, ""))
			}
			if sec := w.Truth.Newest("otp", U1, false); sec != nil {
				v := sec.Val
				a = append(a, flows.A("otplogin(B1,u1,otp:live#0)", func(s *world.Stack, _ *world.World) world.Req { return flows.OTPLogin(s, b, U1, v, false) }, ""))
			}
			a = append(a, flows.AdminLock(U1), flows.AdminUnlock(U1))
			a = append(a, flows.A("recover-start(B1,u1)", func(s *world.Stack, _ *world.World) world.Req { return flows.RecoverStart(s, b, U1) }, U1))
			a = append(a, waitActs(cfg.w+time.Second, cfg.d+time.Second)...)
			if x.long {
				a = append(a, waitActs(90*time.Second)...)
			}
			return a
		}
		out = append(out, sc)
	}
	return out
}

var _ = reflect.DeepEqual

func init() {
	engine.Register(&engine.Property{
		ID: "C16", Level: "model_checking",
		Rule: "E1 over failures / successes / manual lock+unlock / clock advances collects account states (attempt counters 0..LockAfter, locked, expired lock, never locked, with and without TOTP, outstanding OTPs) for module subsets in both lock/confirm orders, form and JSON; from every distinct state the three pair kinds run on clones from both browsers with and without rm, and status + header map + body + session-jar delta + cookie-jar delta are compared byte for byte; classes = pair kinds executed",
		Units: func(tier string) []engine.Unit {
			scs := c16Scenarios(tier)
			return e1Units(append(scs, configVariants(scs[:1], tier, "err500", "nomount")...))
		},
		Need:        []string{"pair:locked-password-correctness", "pair:locked-otp-correctness", "pair:account-existence-login", "pair:account-existence-otp", "pair:account-existence-recover"},
		Assumptions: []string{"only what the client sees is compared (database, log and outboxes legitimately differ)", "timing is out of scope", "pair (c) only where the reference lock automaton says the failed attempt does not lock the known account"},
	})
}
