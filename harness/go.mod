module verif

go 1.22

require (
	github.com/pquerna/otp v1.4.0
	github.com/volatiletech/authboss/v3 v3.0.0-00010101000000-000000000000
	golang.org/x/crypto v0.17.0
	golang.org/x/oauth2 v0.6.0
)

require (
	github.com/boombuler/barcode v1.0.1 // indirect
	github.com/friendsofgo/errors v0.9.2 // indirect
)

replace github.com/volatiletech/authboss/v3 => /repo

replace github.com/pquerna/otp => /verif/.cache/deps/otp
