package world

import (
	"bytes"
	"context"
	"crypto/sha256"
	"encoding/binary"
	"encoding/json"
	"fmt"
	"io"
	"net/http"
	"net/url"
	"strings"
	"sync"
	"time"

	"github.com/volatiletech/authboss/v3"
	_ "github.com/volatiletech/authboss/v3/auth"
	"github.com/volatiletech/authboss/v3/confirm"
	"github.com/volatiletech/authboss/v3/defaults"
	"github.com/volatiletech/authboss/v3/expire"
	"github.com/volatiletech/authboss/v3/lock"
	_ "github.com/volatiletech/authboss/v3/logout"
	_ "github.com/volatiletech/authboss/v3/oauth2"
	_ "github.com/volatiletech/authboss/v3/otp"
	"github.com/volatiletech/authboss/v3/otp/twofactor"
	"github.com/volatiletech/authboss/v3/otp/twofactor/sms2fa"
	"github.com/volatiletech/authboss/v3/otp/twofactor/totp2fa"
	_ "github.com/volatiletech/authboss/v3/recover"
	_ "github.com/volatiletech/authboss/v3/register"
	"github.com/volatiletech/authboss/v3/remember"
	xoauth2 "golang.org/x/oauth2"
)

// Config describes one application configuration (a "scenario").
type Config struct {
	Name string
	// Modules in load order. Registered modules: auth otp remember logout
	// register confirm recover lock oauth2. Pseudo modules set up by hand,
	// as the README describes: expire totp2fa sms2fa recovery.
	Modules []string

	JSON        bool // body reader reads JSON; requests are sent as JSON
	Mount       string
	NoMount     bool // Mount = ""
	RootURL     string
	Whitelist   []string
	OneTimeUser bool

	LockAfter    int
	LockWindow   time.Duration
	LockDuration time.Duration
	ExpireAfter  time.Duration

	LogoutMethod         string
	MailRouteMethod      string
	RecoverLoginAfter    bool
	RecoverTokenDuration time.Duration
	EmailAuthRequired    bool
	OnUnauthed           authboss.MWRespondOnFailure
	Err500               bool // error handler variant that also writes a 500

	ProtReqs authboss.MWRequirements
	ProtFail authboss.MWRespondOnFailure

	RegisterWhitelist []string // overrides the body reader's register whitelist when non-nil
	ModuleList        bool     // wrap the authboss routes in authboss.ModuleListMiddleware
	SharedLayout      bool     // the application injects its layout data map (World.Layout) into every request context
	NilEmptyState     bool     // the client-state stores return a nil ClientState for an empty jar (a store that has no session for the browser)
	App2FAHandler     bool     // the application registers After(EventTwoFactorAdded/Removed) handlers that answer the request themselves
	MailGoroutine     bool     // leave MailNoGoroutine=false (schedule engine only)
	SMTPMailer        bool     // use defaults.SMTPMailer (through the vsmtp shim)
	AppRecoverEndHook bool     // the application registers, ahead of the modules, an After(EventRecoverEnd) handler that returns handled=true
	PreloadUser       bool     // an application middleware in front of everything loads the current user into the request context (a layout-data injector)
	CustomFailures    bool     // the JSON renderer is configured with a Failures slice that has spare capacity
	EmptyLocalizer    bool     // a Localizer that has no translation for any of the library's keys (returns "", as the interface documents)
	PerClientData     bool     // the application injects per-client template data into every request context (CTXKeyData)
	LogMailer         bool     // use defaults.LogMailer writing into the world's mail stream (every Write is a scheduling point)
}

// Has reports whether a (pseudo) module is loaded.
func (c *Config) Has(m string) bool {
	for _, x := range c.Modules {
		if x == m {
			return true
		}
	}
	return false
}

// FaultKind selects the error an injected fault returns.
type FaultKind int

const (
	FaultGeneric  FaultKind = iota // ErrInjected
	FaultNotFound                  // the interface's "not found" sentinel, where it defines one
)

// Stack is one initialised *authboss.Authboss with the application around it.
// It holds no mutable state of its own other than the pointer to the current
// world and per-request counters.
type Stack struct {
	Cfg     Config
	AB      *authboss.Authboss
	Handler http.Handler
	W       *World
	Split   *Split // free-running race pass: a private world per client (see Split)

	Lock    *lock.Lock
	Confirm *confirm.Confirm

	// seam bookkeeping for the current request
	seamCalls       []string
	FaultAt         int // index into seamCalls that fails (-1: none)
	FaultAt2        int
	FaultKind       FaultKind
	FaultLabel      string // fail the first seam call with this label ("" = none)
	MailRenderFault bool   // every mail template rendering fails
	MailFault       bool   // every Mailer.Send fails (kept apart from the seam counter: C18's fault enumeration is about the backends its statement names)
	faultFired      []string
	stateWrites     int
	// UsedTokens records the (pid, hash) pairs UseRememberToken consumed during the current request.
	UsedTokens []string

	// Point is called before every seam operation when non-nil (scheduler hook).
	Point func(label string)
	// Conc marks concurrent use (schedule engine / race pass): per-request
	// bookkeeping and fault plans are off.
	Conc bool
	// FreeMu, when set, serialises the harness's own shared data in free-running
	// (race detector) runs. It is never held across library code.
	FreeMu *sync.Mutex
	// NoteFn (schedule engine) receives what a seam answered to the running thread.
	NoteFn func(answer string)
	// RNGSel selects the deterministic random stream of the running logical thread.
	RNGSel func() int

	rng     *rngReader
	lastErr string
	probe   *ProbeInfo
}

// seam counts a backend call and applies the fault plan.
func (s *Stack) seam(label string, notFound error) error {
	if s.Point != nil {
		s.Point(label)
	}
	if s.Conc {
		return nil
	}
	idx := len(s.seamCalls)
	s.seamCalls = append(s.seamCalls, label)
	if idx == s.FaultAt || idx == s.FaultAt2 || s.labelFault(label) {
		s.faultFired = append(s.faultFired, label)
		if s.FaultKind == FaultNotFound && notFound != nil {
			return notFound
		}
		return ErrInjected
	}
	return nil
}

// labelFault decides a FaultLabel fault: "db.Save" fails the request's first db.Save,
// "db.Save#2" its second one (s.seamCalls already contains the current call).
func (s *Stack) labelFault(label string) bool {
	if s.FaultLabel == "" || len(s.faultFired) > 0 {
		return false
	}
	want, nth := s.FaultLabel, 1
	if i := strings.IndexByte(want, '#'); i > 0 {
		nth = int(want[i+1] - '0')
		want = want[:i]
	}
	if want != label {
		return false
	}
	n := 0
	for _, l := range s.seamCalls {
		if l == label {
			n++
		}
	}
	return n == nth
}

// note records an environment answer for the pruned schedule exploration.
func (s *Stack) note(format string, args ...interface{}) {
	if s.NoteFn != nil {
		s.NoteFn(fmt.Sprintf(format, args...))
	}
}

// Split mode (free-running race pass only): every client gets a private copy of the world and a
// private mutex, so that the harness itself creates no happens-before edge between two clients'
// requests. With a single shared world and one mutex, every storer / jar / outbox access orders
// the clients' goroutines, and the race detector (which reports unordered conflicting accesses)
// goes blind to races inside the library whenever the accesses happen to be separated by such
// an edge. Clients act on disjoint accounts and browsers, so a private world behaves like the
// shared one for them; cross-talk is the scheduled passes' business, not this pass's.
type Split struct {
	W    map[string]*World      // browser -> private world
	Mu   map[string]*sync.Mutex // browser -> its mutex
	Addr map[string]string      // e-mail address -> browser (mail delivery without a context)
}

// worldB returns the world a browser's requests act on.
func (s *Stack) worldB(b string) *World {
	if s.Split != nil {
		if w := s.Split.W[b]; w != nil {
			return w
		}
	}
	return s.W
}

// guardB is guard for the data of one browser's world.
func (s *Stack) guardB(b string) func() {
	if s.Split != nil {
		if m := s.Split.Mu[b]; m != nil {
			m.Lock()
			return m.Unlock
		}
	}
	return s.guard()
}

// guard serialises access to the harness's shared data in free-running mode.
func (s *Stack) guard() func() {
	if s.FreeMu == nil {
		return func() {}
	}
	s.FreeMu.Lock()
	return s.FreeMu.Unlock
}

// point is a scheduling point without fault injection.
func (s *Stack) point(label string) error {
	if s.Point != nil {
		s.Point(label)
	}
	return nil
}

// ---------------------------------------------------------------- environment

type rngReader struct{ s *Stack }

// Read produces the deterministic stream: block i = sha256("verif" || i).
func (r *rngReader) Read(p []byte) (int, error) {
	// crypto/rand is an environment call: a scheduling point before it, and one after the
	// bytes have landed in the caller's buffer (the buffer may be shared between requests)
	r.s.point("rand.Read")
	defer r.s.point("rand.Read:done")
	return r.read(p)
}

func (r *rngReader) read(p []byte) (int, error) {
	defer r.s.guard()()
	n := 0
	for n < len(p) {
		var b [17]byte
		copy(b[:], "verif")
		ctr := &r.s.W.RNG
		if r.s.RNGSel != nil {
			id := r.s.RNGSel()
			if r.s.W.RNGs == nil {
				r.s.W.RNGs = map[int]*uint64{}
			}
			if r.s.W.RNGs[id] == nil {
				r.s.W.RNGs[id] = new(uint64)
			}
			ctr = r.s.W.RNGs[id]
			binary.BigEndian.PutUint32(b[13:], uint32(id+1))
		}
		binary.BigEndian.PutUint64(b[5:], *ctr)
		*ctr++
		h := sha256.Sum256(b[:])
		n += copy(p[n:], h[:])
	}
	return len(p), nil
}

// ReaderOf returns the deterministic crypto/rand stream of the stack's current world.
func ReaderOf(s *Stack) io.Reader { return s.rng }

type mailer struct{ s *Stack }

func (m mailer) Send(ctx context.Context, e authboss.Email) error {
	m.s.point("mailer.Send")
	b := BrowserOf(ctx)
	defer m.s.guardB(b)()
	mw := m.s.worldB(b)
	mw.Mails = append(mw.Mails, Mail{
		To: append([]string(nil), e.To...), Cc: append([]string(nil), e.Cc...), Bcc: append([]string(nil), e.Bcc...),
		Subject: e.Subject, Text: e.TextBody, HTML: e.HTMLBody, Failed: m.s.MailFault,
	})
	if m.s.MailFault {
		m.s.faultFired = append(m.s.faultFired, "mailer.Send")
		return ErrInjected
	}
	return nil
}

type smsSender struct{ s *Stack }

func (m smsSender) Send(ctx context.Context, number, text string) error {
	if err := m.s.seam("sms.Send", nil); err != nil {
		return err
	}
	defer m.s.guardB(BrowserOf(ctx))()
	sw := m.s.worldB(BrowserOf(ctx))
	sw.SMS = append(sw.SMS, SMSMsg{Number: number, Code: text, Browser: BrowserOf(ctx), At: sw.Now})
	return nil
}

type logWriter struct{ s *Stack }

func (l logWriter) Write(p []byte) (int, error) {
	if l.s.Split != nil {
		return len(p), nil // the log has no client to belong to; in split mode it is dropped rather than shared
	}
	defer l.s.guard()()
	l.s.W.Log = append(l.s.W.Log, string(p))
	return len(p), nil
}

type hasher struct {
	s     *Stack
	inner authboss.Hasher
}

func (h hasher) GenerateHash(pw string) (string, error) {
	if err := h.s.seam("hasher.GenerateHash", nil); err != nil {
		return "", err
	}
	return h.inner.GenerateHash(pw)
}

func (h hasher) CompareHashAndPassword(hash, pw string) error {
	// comparison is not a fault seam: an error here *is* "wrong password"
	return h.inner.CompareHashAndPassword(hash, pw)
}

type renderer struct {
	s     *Stack
	inner defaults.JSONRenderer
	mail  bool
}

func (r renderer) Load(names ...string) error { return r.inner.Load(names...) }

func (r renderer) Render(ctx context.Context, page string, data authboss.HTMLData) ([]byte, string, error) {
	if r.mail && r.s.MailRenderFault {
		// the mail template fails: the mail that was about to be built (its data carries the link) never exists
		r.s.faultFired = append(r.s.faultFired, "mailrenderer.Render")
		js, _ := json.Marshal(data) // the shape the JSON mail renderer would have produced
		r.s.W.Mails = append(r.s.W.Mails, Mail{Text: string(js), Failed: true})
		return nil, "", ErrInjected
	}
	if !r.mail {
		if err := r.s.seam("renderer.Render:"+page, nil); err != nil {
			return nil, "", err
		}
	}
	return r.inner.Render(ctx, page, data)
}

// err500 is the error-handler variant that renders an error page.
type err500 struct{ log authboss.Logger }

func (e err500) Wrap(h func(w http.ResponseWriter, r *http.Request) error) http.Handler {
	return http.HandlerFunc(func(w http.ResponseWriter, r *http.Request) {
		err := h(w, r)
		if err == nil {
			return
		}
		e.log.Error(fmt.Sprintf("request error from (%s) %s: %+v", r.RemoteAddr, r.URL.String(), err))
		w.WriteHeader(http.StatusInternalServerError)
		io.WriteString(w, "internal error")
	})
}

// otpPages adapts the shipped body reader for the otp module's page names,
// which it does not know (it returns an error for them).
type otpPages struct{ inner authboss.BodyReader }

func (o otpPages) Read(page string, r *http.Request) (authboss.Validator, error) {
	if page == "otplogin" {
		page = "login"
	}
	return o.inner.Read(page, r)
}

// ---------------------------------------------------------------- fake OAuth2 provider

type providerRT struct{}

func (providerRT) RoundTrip(r *http.Request) (*http.Response, error) {
	body, _ := io.ReadAll(r.Body)
	vals, _ := url.ParseQuery(string(body))
	code := vals.Get("code")
	resp := &http.Response{StatusCode: 200, Header: http.Header{"Content-Type": {"application/json"}}, Request: r}
	if strings.HasPrefix(code, "c:") {
		js, _ := json.Marshal(map[string]string{"access_token": "at:" + strings.TrimPrefix(code, "c:"), "token_type": "bearer"})
		resp.Body = io.NopCloser(bytes.NewReader(js))
	} else {
		resp.StatusCode = 400
		resp.Body = io.NopCloser(strings.NewReader(`{"error":"invalid_grant"}`))
	}
	return resp, nil
}

func findUserDetails(_ context.Context, _ xoauth2.Config, tok *xoauth2.Token) (map[string]string, error) {
	uid := strings.TrimPrefix(tok.AccessToken, "at:")
	return map[string]string{"uid": uid, "email": "o" + "@provider.test"}, nil
}

// ---------------------------------------------------------------- assembly

// Registered reports whether m is a module loaded through ab.Init.
func registered(m string) bool {
	switch m {
	case "auth", "otp", "remember", "logout", "register", "confirm", "recover", "lock", "oauth2":
		return true
	}
	return false
}

// NewStack builds a fresh instance for cfg. It never shares anything with
// another stack.
func NewStack(cfg Config) (*Stack, error) {
	s := &Stack{Cfg: cfg, FaultAt: -1, FaultAt2: -1}
	s.rng = &rngReader{s}
	ab := authboss.New()
	s.AB = ab
	if cfg.AppRecoverEndHook {
		// an application hook registered ahead of the modules' own that reports the event as handled
		// (it did its own bookkeeping); the modules' security duties on that event are not optional
		ab.Events.After(authboss.EventRecoverEnd, func(w http.ResponseWriter, r *http.Request, handled bool) (bool, error) { return true, nil })
	}

	if cfg.NoMount {
		ab.Config.Paths.Mount = ""
	} else if cfg.Mount != "" {
		ab.Config.Paths.Mount = cfg.Mount
	}
	root := cfg.RootURL
	if root == "" {
		root = "http://site.test"
	}
	if root == "-" {
		root = "" // explicitly no RootURL (links and the OAuth2 redirect_uri are then site-relative)
	}
	ab.Config.Paths.RootURL = root
	ab.Config.Paths.AuthLoginOK = "/ok/login"
	ab.Config.Paths.ConfirmOK = "/ok/confirm"
	ab.Config.Paths.ConfirmNotOK = "/no/confirm"
	ab.Config.Paths.LockNotOK = "/no/lock"
	ab.Config.Paths.LogoutOK = "/ok/logout"
	ab.Config.Paths.OAuth2LoginOK = "/ok/oauth2"
	ab.Config.Paths.OAuth2LoginNotOK = "/no/oauth2"
	ab.Config.Paths.RecoverOK = "/ok/recover"
	ab.Config.Paths.RegisterOK = "/ok/register"
	ab.Config.Paths.TwoFactorEmailAuthNotOK = "/no/2faemail"

	ab.Config.Modules.BCryptCost = 4
	if cfg.LockAfter < 0 {
		ab.Config.Modules.LockAfter = 0 // explicitly zero
	} else if cfg.LockAfter != 0 {
		ab.Config.Modules.LockAfter = cfg.LockAfter
	}
	if cfg.LockWindow != 0 {
		ab.Config.Modules.LockWindow = cfg.LockWindow
	}
	if cfg.LockDuration != 0 {
		ab.Config.Modules.LockDuration = cfg.LockDuration
	}
	if cfg.ExpireAfter != 0 {
		ab.Config.Modules.ExpireAfter = cfg.ExpireAfter
	}
	if cfg.LogoutMethod != "" {
		ab.Config.Modules.LogoutMethod = cfg.LogoutMethod
	}
	if cfg.MailRouteMethod != "" {
		ab.Config.Modules.MailRouteMethod = cfg.MailRouteMethod
	} else if cfg.JSON {
		ab.Config.Modules.MailRouteMethod = http.MethodPost
	}
	ab.Config.Modules.RecoverLoginAfterRecovery = cfg.RecoverLoginAfter
	if cfg.RecoverTokenDuration != 0 {
		ab.Config.Modules.RecoverTokenDuration = cfg.RecoverTokenDuration
	}
	ab.Config.Modules.TwoFactorEmailAuthRequired = cfg.EmailAuthRequired
	ab.Config.Modules.ResponseOnUnauthed = cfg.OnUnauthed
	ab.Config.Modules.MailNoGoroutine = !cfg.MailGoroutine
	ab.Config.Modules.TOTP2FAIssuer = "verif"
	ab.Config.Mail.From = "noreply@site.test"
	ab.Config.Storage.SessionStateWhitelistKeys = append([]string(nil), cfg.Whitelist...)

	ab.Config.Storage.Server = &Storer{S: s}
	ab.Config.Storage.SessionState = jarRW{S: s}
	ab.Config.Storage.CookieState = jarRW{S: s, cookies: true}

	logger := defaults.NewLogger(logWriter{s})
	ab.Config.Core.ViewRenderer = renderer{s: s}
	if cfg.CustomFailures {
		// an integrator's own failure key, in a slice that has room to grow (append must not write into it)
		ab.Config.Core.ViewRenderer = renderer{s: s, inner: defaults.JSONRenderer{Failures: append(make([]string, 0, 8), "custom_failure", authboss.DataErr, authboss.DataValidation)}}
	}
	ab.Config.Core.MailRenderer = renderer{s: s, mail: true}
	ab.Config.Core.Router = defaults.NewRouter()
	if cfg.Err500 {
		ab.Config.Core.ErrorHandler = err500{log: logger}
	} else {
		ab.Config.Core.ErrorHandler = defaults.NewErrorHandler(logger)
	}
	ab.Config.Core.Responder = defaults.NewResponder(ab.Config.Core.ViewRenderer)
	ab.Config.Core.Redirector = defaults.NewRedirector(ab.Config.Core.ViewRenderer, authboss.FormValueRedirect)
	br := defaults.NewHTTPBodyReader(cfg.JSON, false)
	if cfg.RegisterWhitelist != nil {
		br.Whitelist["register"] = append([]string(nil), cfg.RegisterWhitelist...)
	}
	ab.Config.Core.BodyReader = otpPages{br}
	ab.Config.Core.Mailer = newMailer(s)
	if cfg.EmptyLocalizer {
		ab.Config.Core.Localizer = emptyLocalizer{}
	}
	ab.Config.Core.Logger = logger
	ab.Config.Core.Hasher = hasher{s: s, inner: authboss.NewBCryptHasher(4)}

	if cfg.Has("oauth2") {
		mk := func() authboss.OAuth2Provider {
			return authboss.OAuth2Provider{
				OAuth2Config: &xoauth2.Config{
					ClientID: "cid", ClientSecret: "csecret",
					Endpoint: xoauth2.Endpoint{AuthURL: "https://provider.test/auth", TokenURL: "https://provider.test/token", AuthStyle: xoauth2.AuthStyleInParams},
				},
				FindUserDetails:  findUserDetails,
				AdditionalParams: url.Values{"access_type": {"offline"}},
			}
		}
		ab.Config.Modules.OAuth2Providers = map[string]authboss.OAuth2Provider{"google": mk(), "fb": mk()}
	}

	for _, m := range cfg.Modules {
		var err error
		switch {
		case registered(m):
			err = ab.Init(m)
		case m == "expire":
			err = expire.Setup(ab)
		case m == "totp2fa":
			err = (&totp2fa.TOTP{Authboss: ab}).Setup()
		case m == "sms2fa":
			err = (&sms2fa.SMS{Authboss: ab, Sender: smsSender{s}}).Setup()
		case m == "recovery":
			err = (&twofactor.Recovery{Authboss: ab}).Setup()
		default:
			err = fmt.Errorf("unknown module %q", m)
		}
		if err != nil {
			return nil, fmt.Errorf("module %s: %w", m, err)
		}
	}
	if cfg.App2FAHandler {
		app := func(w http.ResponseWriter, r *http.Request, handled bool) (bool, error) {
			if handled {
				return false, nil
			}
			ro := authboss.RedirectOptions{Code: http.StatusTemporaryRedirect, RedirectPath: "/app/2fa-changed", Success: "two factor settings changed"}
			return true, ab.Config.Core.Redirector.Redirect(w, r, ro)
		}
		ab.Events.After(authboss.EventTwoFactorAdded, app)
		ab.Events.After(authboss.EventTwoFactorRemoved, app)
	}
	if cfg.Has("lock") {
		s.Lock = &lock.Lock{Authboss: ab}
	}
	if cfg.Has("confirm") {
		s.Confirm = &confirm.Confirm{Authboss: ab}
	}

	// the application
	mux := http.NewServeMux()
	mount := ab.Config.Paths.Mount
	var routes http.Handler = ab.Config.Core.Router
	if cfg.ModuleList {
		routes = authboss.ModuleListMiddleware(ab)(routes)
	}
	if mount == "" {
		mux.Handle("/", routes)
	} else {
		mux.Handle(mount+"/", http.StripPrefix(mount, routes))
	}
	mux.HandleFunc("/app/open", s.probeHandler("open"))
	var prot http.Handler = http.HandlerFunc(s.probeHandler("prot"))
	if cfg.Has("confirm") {
		prot = confirm.Middleware(ab)(prot)
	}
	if cfg.Has("lock") {
		prot = lock.Middleware(ab)(prot)
	}
	prot = authboss.Middleware2(ab, cfg.ProtReqs, cfg.ProtFail)(prot)
	mux.Handle("/app/prot", prot)
	// the lock / confirm middlewares on their own, as an application mounts them on routes that are
	// not behind authboss.Middleware2 (they load the session user themselves)
	if cfg.Has("confirm") || cfg.Has("lock") {
		var guard http.Handler = http.HandlerFunc(s.probeHandler("guard"))
		if cfg.Has("confirm") {
			guard = confirm.Middleware(ab)(guard)
		}
		if cfg.Has("lock") {
			guard = lock.Middleware(ab)(guard)
		}
		mux.Handle("/app/guard", guard)
		// an application that wraps its whole tree serves the "not OK" landing pages behind the same middlewares
		mux.Handle(ab.Config.Paths.ConfirmNotOK, guard)
		mux.Handle(ab.Config.Paths.LockNotOK, guard)
	}
	var full http.Handler = http.HandlerFunc(s.probeHandler("full"))
	full = authboss.Middleware2(ab, authboss.RequireFullAuth, cfg.ProtFail)(full)
	mux.Handle("/app/full", full)
	// a conditional GET that is answered "not modified" (what http.ServeContent does for a cached asset)
	mux.HandleFunc("/app/notmodified", func(w http.ResponseWriter, r *http.Request) { w.WriteHeader(http.StatusNotModified) })
	mux.HandleFunc("/app/put", func(w http.ResponseWriter, r *http.Request) {
		q := r.URL.Query()
		authboss.PutSession(w, q.Get("k"), q.Get("v"))
		w.WriteHeader(200)
	})

	var h http.Handler = mux
	if cfg.Has("expire") {
		h = expire.Middleware(ab)(h)
	}
	if cfg.Has("remember") {
		h = remember.Middleware(ab)(h)
	}
	inner := h
	h = http.HandlerFunc(func(w http.ResponseWriter, r *http.Request) {
		ctx := context.WithValue(r.Context(), xoauth2.HTTPClient, &http.Client{Transport: providerRT{}})
		if cfg.SharedLayout && s.W.Layout != nil {
			ctx = context.WithValue(ctx, authboss.CTXKeyData, authboss.HTMLData(s.W.Layout))
		}
		if cfg.PreloadUser {
			rr := r.WithContext(ctx)
			if _, err := ab.LoadCurrentUser(&rr); err == nil {
				ctx = rr.Context()
			}
		}
		if cfg.PerClientData {
			// a data-injecting middleware as the README describes: values that belong to this client only,
			// one of them under a key other clients' requests do not carry at all
			b := r.Header.Get("X-Browser")
			ctx = context.WithValue(ctx, authboss.CTXKeyData, authboss.HTMLData{"current_client": b, "only_for_" + b: "yes"})
		}
		inner.ServeHTTP(w, r.WithContext(ctx))
	})
	h = ab.LoadClientStateMiddleware(h)
	s.Handler = h
	return s, nil
}

// ProbeInfo is what an application handler behind the middlewares could see.
type ProbeInfo struct {
	Which    string
	Ran      bool
	PID      string
	UserPID  string // PID of the loaded user object ("" if none)
	UserErr  string
	Session  map[string]string
	FullAuth bool
	TwoFA    bool
}

// SessionKeysProbed is every session key a downstream handler might look at.
var SessionKeysProbed = []string{
	authboss.SessionKey, authboss.SessionHalfAuthKey, authboss.SessionLastAction, authboss.Session2FA,
	authboss.Session2FAAuthToken, authboss.Session2FAAuthed, authboss.SessionOAuth2State, authboss.SessionOAuth2Params,
	totp2fa.SessionTOTPSecret, totp2fa.SessionTOTPPendingPID, sms2fa.SessionSMSNumber, sms2fa.SessionSMSSecret,
	sms2fa.SessionSMSLast, sms2fa.SessionSMSPendingPID, authboss.FlashSuccessKey, authboss.FlashErrorKey,
	"theme", "cart", "csrf",
}

func (s *Stack) probeHandler(which string) http.HandlerFunc {
	return func(w http.ResponseWriter, r *http.Request) {
		p := &ProbeInfo{Which: which, Ran: true, Session: map[string]string{}}
		p.PID, _ = s.AB.CurrentUserID(r)
		u, err := s.AB.CurrentUser(r)
		if err != nil {
			p.UserErr = err.Error()
		} else if u != nil {
			p.UserPID = u.GetPID()
		}
		for _, k := range SessionKeysProbed {
			if v, ok := authboss.GetSession(r, k); ok {
				p.Session[k] = v
			}
		}
		p.FullAuth = authboss.IsFullyAuthed(r)
		p.TwoFA = authboss.IsTwoFactored(r)
		if !s.Conc {
			s.probe = p
		}
		w.Header().Set("Content-Type", "text/plain")
		w.WriteHeader(200)
		io.WriteString(w, "probe:"+which)
	}
}

// emptyLocalizer knows no translation: the library falls back to its default texts.
type emptyLocalizer struct{}

func (emptyLocalizer) Localizef(context.Context, authboss.LocalizationKey, ...any) string { return "" }
