package world

import (
	"fmt"
	"sort"
	"strconv"
	"strings"
	"time"
)

// Canon computes the canonical key of a world:
//   - every random value the oracle knows (secrets and the hashes / selectors
//     derived from them, salted bcrypt hashes via the hash record, the random
//     session values) is replaced by a symbol numbered by first appearance, so
//     two worlds that differ only in *which* random bytes were drawn coincide;
//   - stored instants become offsets from the virtual clock, saturated beyond
//     sat (the largest duration the configuration compares against, plus 1s);
//   - maps are serialised in sorted key order;
//   - the append-only observers (log, outboxes) and the RNG cursor are dropped.
//
// Correctness argument (DESIGN.md 3.1): the library only compares random
// values for equality or hashes them; instants are only compared with
// now +- a configured duration; the observers are never read back.
func (w *World) Canon(sat time.Duration) string {
	c := &canon{w: w, sat: sat, idx: map[string]aref{}}
	for _, s := range w.Truth.Secrets {
		c.register(s.Kind, s.Val)
	}
	var sb strings.Builder
	for _, pid := range w.DB.PIDs() {
		r := w.DB.Users[pid]
		fmt.Fprintf(&sb, "U[%s|%s|pw=%s|cf=%v,%s,%s|lk=%d,%s,%s|rc=%s,%s,%s|otp=%s|totp=%s,%s|sms=%s,%s|codes=%s|oa=%s,%s,%s,%s,%s|2nd=%s|arb=%s]\n",
			c.sym(r.PID), r.Email, c.sym(r.Password),
			r.Confirmed, c.sym(r.ConfirmSelector), c.sym(r.ConfirmVerifier),
			r.AttemptCount, c.tm(r.LastAttempt), c.tm(r.Locked),
			c.sym(r.RecoverSelector), c.sym(r.RecoverVerifier), c.tm(r.RecoverExpiry),
			c.list(r.OTPs), c.rnd(r.TOTPSecretKey), c.sym(r.TOTPLastCode),
			r.SMSPhoneNumber, r.SMSSeed, c.list(r.RecoveryCodes),
			r.OAuth2UID, r.OAuth2Provider, r.OAuth2AccessToken, r.OAuth2RefreshToken, c.tm(r.OAuth2Expiry),
			strings.Join(r.SecondaryEmails, ","), c.kv(r.Arbitrary, nil))
	}
	tp := make([]string, 0, len(w.DB.Tokens))
	for pid := range w.DB.Tokens {
		tp = append(tp, pid)
	}
	sort.Strings(tp)
	for _, pid := range tp {
		// token hashes are always random; one the oracle never saw (its cookie was overwritten or
		// never delivered) is an anonymous atom, not a literal
		toks := make([]string, len(w.DB.Tokens[pid]))
		for i, t := range w.DB.Tokens[pid] {
			toks[i] = c.rnd(t)
		}
		fmt.Fprintf(&sb, "T[%s:%s]\n", pid, strings.Join(toks, ","))
	}
	for _, bn := range w.BrowserNames() {
		b := w.Browsers[bn]
		fmt.Fprintf(&sb, "B[%s|s=%s|c=%s]\n", bn, c.kv(b.Session, c.sessVal), c.kv(b.Cookies, nil))
	}
	for _, s := range w.Truth.Secrets {
		fmt.Fprintf(&sb, "S[%s|%s|%s|%s|%s|%v,%s,%v]\n", s.Kind, s.Owner, c.sym(s.Val), s.Browser, c.tm(s.At), s.Dead, s.Why, s.Used)
	}
	for _, m := range w.Truth.SMSLog {
		fmt.Fprintf(&sb, "M[%s|%s|%s|%s|%s]\n", m.Number, c.rnd(m.Code), m.Browser, c.tm(m.At), m.For)
	}
	fk := make([]string, 0, len(w.Truth.Flags))
	for k := range w.Truth.Flags {
		fk = append(fk, k)
	}
	sort.Strings(fk)
	for _, k := range fk {
		v := w.Truth.Flags[k]
		for _, pre := range []string{"c12:sms-used:", "c07:cookie-class:"} {
			if strings.HasPrefix(k, pre) {
				k = pre + c.rnd(strings.TrimPrefix(k, pre)) // the key embeds a random value
			}
		}
		if strings.HasPrefix(k, "oauth-prev-state:") {
			v = c.rnd(v) // a remembered random value, not a literal
		} else {
			v = c.sym(v)
		}
		fmt.Fprintf(&sb, "F[%s=%s]\n", k, v)
	}
	if w.Layout != nil {
		lk := make([]string, 0, len(w.Layout))
		for k := range w.Layout {
			lk = append(lk, k)
		}
		sort.Strings(lk)
		for _, k := range lk {
			fmt.Fprintf(&sb, "L[%s=%s]\n", k, c.sym(fmt.Sprint(w.Layout[k])))
		}
	}
	tk := make([]string, 0, len(w.Truth.Times))
	for k := range w.Truth.Times {
		tk = append(tk, k)
	}
	sort.Strings(tk)
	for _, k := range tk {
		fmt.Fprintf(&sb, "X[%s=%s]\n", k, c.tm(w.Truth.Times[k]))
	}
	ik := make([]string, 0, len(w.Truth.Ints))
	for k := range w.Truth.Ints {
		ik = append(ik, k)
	}
	sort.Strings(ik)
	for _, k := range ik {
		fmt.Fprintf(&sb, "I[%s=%d]\n", k, w.Truth.Ints[k])
	}
	return c.rename(sb.String())
}

type aref struct {
	base string
	form string
}

type canon struct {
	w   *World
	sat time.Duration
	idx map[string]aref
}

func (c *canon) register(kind, val string) {
	if val == "" {
		return
	}
	if _, ok := c.idx[val]; ok {
		return
	}
	c.idx[val] = aref{val, "v"}
	switch kind {
	case "otp":
		c.idx[B64Sha512(val)] = aref{val, "h"}
	case "rm":
		if h, ok := RememberHash(val); ok {
			c.idx[h] = aref{val, "h"}
		}
	case "rtok", "ctok":
		if s, v, ok := TokenParts(val); ok {
			c.idx[s] = aref{val, "sel"}
			c.idx[v] = aref{val, "ver"}
		}
	}
}

const (
	pOpen  = "\x01"
	pClose = "\x02"
)

// sym maps a concrete value to its symbolic spelling.
func (c *canon) sym(v string) string {
	if v == "" {
		return ""
	}
	if a, ok := c.idx[v]; ok {
		return pOpen + a.base + pClose + a.form
	}
	if strings.HasPrefix(v, "$2a$") || strings.HasPrefix(v, "$2b$") {
		if p, ok := PlainOf(v); ok {
			return "H(" + c.sym(p) + ")"
		}
	}
	return v
}

// rnd treats v as a random atom even if the oracle has not registered it.
func (c *canon) rnd(v string) string {
	if v == "" {
		return ""
	}
	if _, ok := c.idx[v]; !ok {
		c.idx[v] = aref{v, "v"}
	}
	return c.sym(v)
}

func (c *canon) list(csv string) string {
	if csv == "" {
		return ""
	}
	parts := strings.Split(csv, ",")
	for i, p := range parts {
		parts[i] = c.sym(p)
	}
	return strings.Join(parts, ",")
}

func (c *canon) tm(t time.Time) string {
	if t.IsZero() {
		return "0"
	}
	d := t.Sub(c.w.Now)
	if d < -c.sat {
		d = -c.sat
	}
	return "T" + strconv.FormatInt(int64(d/time.Second), 10)
}

// sessVal canonicalises the session values that hold instants or random data.
func (c *canon) sessVal(k, v string) string {
	switch k {
	case "last_action":
		if t, err := time.Parse(time.RFC3339, v); err == nil {
			return c.tm(t)
		}
	case "sms_last":
		if n, err := strconv.ParseInt(v, 10, 64); err == nil {
			return c.tm(time.Unix(n, 0))
		}
	case "oauth2_state", "totp_secret", "sms_secret", "twofactor_auth_token":
		return c.rnd(v)
	}
	return c.sym(v)
}

func (c *canon) kv(m map[string]string, f func(k, v string) string) string {
	ks := sortedKeys(m)
	var sb strings.Builder
	for i, k := range ks {
		if i > 0 {
			sb.WriteByte(' ')
		}
		v := m[k]
		if f != nil {
			v = f(k, v)
		} else {
			v = c.sym(v)
		}
		sb.WriteString(k + "=" + v)
	}
	return sb.String()
}

// rename numbers the atom bases by first appearance.
func (c *canon) rename(s string) string {
	names := map[string]string{}
	var out strings.Builder
	for {
		i := strings.Index(s, pOpen)
		if i < 0 {
			out.WriteString(s)
			break
		}
		out.WriteString(s[:i])
		s = s[i+1:]
		j := strings.Index(s, pClose)
		base := s[:j]
		s = s[j+1:]
		n, ok := names[base]
		if !ok {
			n = "§" + strconv.Itoa(len(names)+1)
			names[base] = n
		}
		out.WriteString(n + ".")
	}
	return out.String()
}
