package world

import (
	"context"
	"net/http"
	"sort"
	"strings"
	"time"

	"github.com/volatiletech/authboss/v3"
)

// Browser is one user agent: a session jar (server-side session addressed by
// an opaque session cookie, as the sample application does) and a cookie jar.
type Browser struct {
	Session map[string]string
	Cookies map[string]string
}

func (b *Browser) clone() *Browser {
	c := &Browser{Session: map[string]string{}, Cookies: map[string]string{}}
	for k, v := range b.Session {
		c.Session[k] = v
	}
	for k, v := range b.Cookies {
		c.Cookies[k] = v
	}
	return c
}

// Mail is one delivered e-mail.
type Mail struct {
	To      []string
	Cc, Bcc []string
	Subject string
	Text    string
	HTML    string
	Failed  bool // the mailer was asked to send this and returned an error (Stack.MailFault): it never left the system
}

// SMSMsg is one delivered text message.
type SMSMsg struct {
	Number  string
	Code    string
	Browser string
	At      time.Time
	For     string // oracle memory only: the account whose login (or settings change) the code was sent for
}

// World is the complete mutable state outside the library.
type World struct {
	Now      time.Time
	RNG      uint64          // cursor of the deterministic crypto/rand stream
	RNGs     map[int]*uint64 // per logical thread cursors (schedule engine only; never cloned)
	DB       *DB
	Browsers map[string]*Browser

	// per-step observers (cleared at the start of every step)
	Mails []Mail
	// MailStream is everything defaults.LogMailer has written to its writer (Config.LogMailer); Mails is re-derived from it
	MailStream string
	SMS        []SMSMsg
	Log        []string

	// Layout is the application's template data map, injected into every request's context under
	// authboss.CTXKeyData when Config.SharedLayout is set (the same map instance for the world's lifetime).
	Layout map[string]interface{}

	// Truth is the oracle's memory (see truth.go)
	Truth *Truth
}

// Epoch is the instant every scenario starts at (a whole second).
var Epoch = time.Date(2024, 3, 1, 12, 0, 0, 0, time.UTC)

// NewWorld returns an empty world with the named browsers.
func NewWorld(browsers ...string) *World {
	w := &World{Now: Epoch, DB: NewDB(), Browsers: map[string]*Browser{}, Truth: NewTruth()}
	for _, b := range browsers {
		w.Browsers[b] = &Browser{Session: map[string]string{}, Cookies: map[string]string{}}
	}
	return w
}

// Clone deep-copies the world.
func (w *World) Clone() *World {
	c := &World{Now: w.Now, RNG: w.RNG, DB: w.DB.Clone(), Browsers: map[string]*Browser{}}
	for k, b := range w.Browsers {
		c.Browsers[k] = b.clone()
	}
	c.Mails = append([]Mail(nil), w.Mails...)
	c.MailStream = w.MailStream
	c.SMS = append([]SMSMsg(nil), w.SMS...)
	c.Log = append([]string(nil), w.Log...)
	c.Truth = w.Truth.Clone()
	if w.Layout != nil {
		c.Layout = map[string]interface{}{}
		for k, v := range w.Layout {
			c.Layout[k] = v
		}
	}
	return c
}

// BrowserNames returns the sorted browser names.
func (w *World) BrowserNames() []string {
	ks := make([]string, 0, len(w.Browsers))
	for k := range w.Browsers {
		ks = append(ks, k)
	}
	sort.Strings(ks)
	return ks
}

// UID returns the session user of a browser.
func (w *World) UID(b string) string { return w.Browsers[b].Session[authboss.SessionKey] }

type ctxKey string

const ctxBrowser ctxKey = "verif-browser"

// BrowserOf returns the browser a request context belongs to.
func BrowserOf(ctx context.Context) string {
	s, _ := ctx.Value(ctxBrowser).(string)
	return s
}

// snapshot is the immutable ClientState handed to handlers.
type snapshot map[string]string

func (s snapshot) Get(k string) (string, bool) { v, ok := s[k]; return v, ok }

// jarRW implements authboss.ClientStateReadWriter over the current world.
type jarRW struct {
	S       *Stack
	cookies bool
}

func (j jarRW) jar(b *Browser) map[string]string {
	if j.cookies {
		return b.Cookies
	}
	return b.Session
}

func (j jarRW) name() string {
	if j.cookies {
		return "cookie"
	}
	return "session"
}

// ReadState hands out a snapshot of the browser's jar.
func (j jarRW) ReadState(r *http.Request) (authboss.ClientState, error) {
	if err := j.S.point(j.name() + ".ReadState"); err != nil {
		return nil, err
	}
	defer j.S.guardB(r.Header.Get("X-Browser"))()
	b := j.S.worldB(r.Header.Get("X-Browser")).Browsers[r.Header.Get("X-Browser")]
	if j.S.Cfg.NilEmptyState && (b == nil || len(j.jar(b)) == 0) {
		return nil, nil
	}
	snap := snapshot{}
	if b != nil {
		for k, v := range j.jar(b) {
			snap[k] = v
		}
	}
	if j.S.NoteFn != nil {
		ks := sortedKeys(snap)
		var sb strings.Builder
		for _, k := range ks {
			sb.WriteString(k + "=" + snap[k] + ";")
		}
		j.S.note("ReadState %s %s", j.name(), sb.String())
	}
	return snap, nil
}

// WriteState applies the queued events to the jar, in order.
func (j jarRW) WriteState(w http.ResponseWriter, _ authboss.ClientState, evs []authboss.ClientStateEvent) error {
	if err := j.S.point(j.name() + ".WriteState"); err != nil {
		return err
	}
	name := w.Header().Get("X-Browser-Echo")
	defer j.S.guardB(name)()
	b := j.S.worldB(name).Browsers[name]
	if b == nil {
		return nil
	}
	jar := j.jar(b)
	for _, ev := range evs {
		switch ev.Kind {
		case authboss.ClientStateEventPut:
			jar[ev.Key] = ev.Value
		case authboss.ClientStateEventDel:
			delete(jar, ev.Key)
		case authboss.ClientStateEventDelAll:
			keep := map[string]bool{}
			if ev.Key != "" {
				for _, k := range strings.Split(ev.Key, ",") {
					keep[k] = true
				}
			}
			for k := range jar {
				if !keep[k] {
					delete(jar, k)
				}
			}
		}
	}
	if !j.S.Conc {
		j.S.stateWrites++
	}
	return nil
}

func contextWithBrowser(ctx context.Context, b string) context.Context {
	return context.WithValue(ctx, ctxBrowser, b)
}
