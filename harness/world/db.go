package world

import (
	"context"
	"errors"
	"sort"

	"github.com/volatiletech/authboss/v3"
)

// ErrInjected is the generic backend failure used by fault plans.
var ErrInjected = errors.New("injected backend failure")

// DB is the database: value rows, a remember-token table, and nothing else.
type DB struct {
	Users  map[string]Row
	Tokens map[string][]string // pid -> token hashes
}

// NewDB returns an empty database.
func NewDB() *DB { return &DB{Users: map[string]Row{}, Tokens: map[string][]string{}} }

// Clone deep-copies the database.
func (d *DB) Clone() *DB {
	c := NewDB()
	for k, v := range d.Users {
		c.Users[k] = v.Copy()
	}
	for k, v := range d.Tokens {
		c.Tokens[k] = append([]string(nil), v...)
	}
	return c
}

// PIDs returns the sorted account identifiers.
func (d *DB) PIDs() []string {
	ks := make([]string, 0, len(d.Users))
	for k := range d.Users {
		ks = append(ks, k)
	}
	sort.Strings(ks)
	return ks
}

// Storer is the authboss.ServerStorer (and every upgrade) over the current
// world's DB. It has copy semantics, returns the bare sentinel errors, and
// passes every call through the fault plan.
type Storer struct {
	S *Stack
}

func (s *Storer) db(ctx context.Context) *DB { return s.S.worldB(BrowserOf(ctx)).DB }

func (s *Storer) mk(r Row) authboss.User {
	if s.S.Cfg.OneTimeUser {
		return &UserOT{Row: r.Copy()}
	}
	return &UserPlain{Row: r.Copy()}
}

func (s *Storer) fault(op string, notFound error) error {
	return s.S.seam("db."+op, notFound)
}

// Load returns a fresh copy.
func (s *Storer) Load(ctx context.Context, key string) (authboss.User, error) {
	if err := s.fault("Load", authboss.ErrUserNotFound); err != nil {
		return nil, err
	}
	defer s.S.guardB(BrowserOf(ctx))()
	r, ok := s.db(ctx).Users[key]
	s.S.note("Load %s %v %+v", key, ok, r)
	if !ok {
		return nil, authboss.ErrUserNotFound
	}
	return s.mk(r), nil
}

// Save stores a copy; never creates.
func (s *Storer) Save(ctx context.Context, user authboss.User) error {
	if err := s.fault("Save", authboss.ErrUserNotFound); err != nil {
		return err
	}
	defer s.S.guardB(BrowserOf(ctx))()
	r, ok := rowOf(user)
	if !ok {
		return errors.New("storer: foreign user type")
	}
	_, ok = s.db(ctx).Users[r.PID]
	s.S.note("Save %s %v", r.PID, ok)
	if !ok {
		return authboss.ErrUserNotFound
	}
	s.db(ctx).Users[r.PID] = r.Copy()
	return nil
}

// New creates a blank user (not persisted).
func (s *Storer) New(ctx context.Context) authboss.User { return s.mk(Row{}) }

// Create inserts; never overwrites.
func (s *Storer) Create(ctx context.Context, user authboss.User) error {
	if err := s.fault("Create", authboss.ErrUserFound); err != nil {
		return err
	}
	defer s.S.guardB(BrowserOf(ctx))()
	r, ok := rowOf(user)
	if !ok {
		return errors.New("storer: foreign user type")
	}
	_, exists := s.db(ctx).Users[r.PID]
	s.S.note("Create %s %v", r.PID, exists)
	if exists {
		return authboss.ErrUserFound
	}
	row := r.Copy()
	if row.Email == "" {
		row.Email = row.PID
	}
	// When the confirm module is not in use the application has no notion
	// of unconfirmed accounts: rows are created confirmed.
	if !s.S.Cfg.Has("confirm") {
		row.Confirmed = true
	}
	s.db(ctx).Users[row.PID] = row
	return nil
}

// LoadByConfirmSelector finds by selector.
func (s *Storer) LoadByConfirmSelector(ctx context.Context, selector string) (authboss.ConfirmableUser, error) {
	if err := s.fault("LoadByConfirmSelector", authboss.ErrUserNotFound); err != nil {
		return nil, err
	}
	defer s.S.guardB(BrowserOf(ctx))()
	// plain equality, like `WHERE confirm_selector = ?`: an empty selector matches rows without one
	for _, pid := range s.db(ctx).PIDs() {
		if r := s.db(ctx).Users[pid]; r.ConfirmSelector == selector {
			s.S.note("LoadByConfirmSelector %+v", r)
			return s.mk(r).(authboss.ConfirmableUser), nil
		}
	}
	return nil, authboss.ErrUserNotFound
}

// LoadByRecoverSelector finds by selector.
func (s *Storer) LoadByRecoverSelector(ctx context.Context, selector string) (authboss.RecoverableUser, error) {
	if err := s.fault("LoadByRecoverSelector", authboss.ErrUserNotFound); err != nil {
		return nil, err
	}
	defer s.S.guardB(BrowserOf(ctx))()
	for _, pid := range s.db(ctx).PIDs() {
		if r := s.db(ctx).Users[pid]; r.RecoverSelector == selector {
			s.S.note("LoadByRecoverSelector %+v", r)
			return s.mk(r).(authboss.RecoverableUser), nil
		}
	}
	return nil, authboss.ErrUserNotFound
}

// AddRememberToken adds a (pid, token) row.
func (s *Storer) AddRememberToken(ctx context.Context, pid, token string) error {
	if err := s.fault("AddRememberToken", nil); err != nil {
		return err
	}
	defer s.S.guardB(BrowserOf(ctx))()
	s.db(ctx).Tokens[pid] = append(s.db(ctx).Tokens[pid], token)
	return nil
}

// DelRememberTokens removes all of a pid's tokens.
func (s *Storer) DelRememberTokens(ctx context.Context, pid string) error {
	if err := s.fault("DelRememberTokens", nil); err != nil {
		return err
	}
	defer s.S.guardB(BrowserOf(ctx))()
	delete(s.db(ctx).Tokens, pid)
	return nil
}

// UseRememberToken finds the pair and deletes it.
func (s *Storer) UseRememberToken(ctx context.Context, pid, token string) error {
	if err := s.fault("UseRememberToken", authboss.ErrTokenNotFound); err != nil {
		return err
	}
	defer s.S.guardB(BrowserOf(ctx))()
	toks := s.db(ctx).Tokens[pid]
	for i, t := range toks {
		if t == token {
			if !s.S.Conc {
				s.S.UsedTokens = append(s.S.UsedTokens, token)
			}
			s.S.note("UseRememberToken ok")
			n := append(append([]string(nil), toks[:i]...), toks[i+1:]...)
			if len(n) == 0 {
				delete(s.db(ctx).Tokens, pid)
			} else {
				s.db(ctx).Tokens[pid] = n
			}
			return nil
		}
	}
	return authboss.ErrTokenNotFound
}

// NewFromOAuth2 looks the identity up or builds a new (unsaved) user.
func (s *Storer) NewFromOAuth2(ctx context.Context, provider string, details map[string]string) (authboss.OAuth2User, error) {
	if err := s.fault("NewFromOAuth2", nil); err != nil {
		return nil, err
	}
	defer s.S.guardB(BrowserOf(ctx))()
	uid := details["uid"]
	pid := authboss.MakeOAuth2PID(provider, uid)
	if r, ok := s.db(ctx).Users[pid]; ok {
		return s.mk(r).(authboss.OAuth2User), nil
	}
	r := Row{PID: pid, OAuth2UID: uid, OAuth2Provider: provider, Email: details["email"], Confirmed: true}
	return s.mk(r).(authboss.OAuth2User), nil
}

// SaveOAuth2 upserts.
func (s *Storer) SaveOAuth2(ctx context.Context, user authboss.OAuth2User) error {
	if err := s.fault("SaveOAuth2", nil); err != nil {
		return err
	}
	defer s.S.guardB(BrowserOf(ctx))()
	r, ok := rowOf(user)
	if !ok {
		return errors.New("storer: foreign user type")
	}
	s.db(ctx).Users[r.PID] = r.Copy()
	return nil
}

// PIDs2 returns the sorted pids that have remember-token rows.
func (d *DB) PIDs2() []string {
	ks := make([]string, 0, len(d.Tokens))
	for k := range d.Tokens {
		ks = append(ks, k)
	}
	sort.Strings(ks)
	return ks
}
