package world

import (
	"context"
	"errors"
	"sort"

	"github.com/volatiletech/authboss/v3"
)

// ErrInjected is the generic backend failure used by fault plans.
var ErrInjected = errors.New("injected backend failure")

// DB is the database: value rows, a remember-token table, and nothing else.
type DB struct {
	Users  map[string]Row
	Tokens map[string][]string // pid -> token hashes
}

// NewDB returns an empty database.
func NewDB() *DB { return &DB{Users: map[string]Row{}, Tokens: map[string][]string{}} }

// Clone deep-copies the database.
func (d *DB) Clone() *DB {
	c := NewDB()
	for k, v := range d.Users {
		c.Users[k] = v.Copy()
	}
	for k, v := range d.Tokens {
		c.Tokens[k] = append([]string(nil), v...)
	}
	return c
}

// PIDs returns the sorted account identifiers.
func (d *DB) PIDs() []string {
	ks := make([]string, 0, len(d.Users))
	for k := range d.Users {
		ks = append(ks, k)
	}
	sort.Strings(ks)
	return ks
}

// Storer is the authboss.ServerStorer (and every upgrade) over the current
// world's DB. It has copy semantics, returns the bare sentinel errors, and
// passes every call through the fault plan.
type Storer struct {
	S *Stack
}

func (s *Storer) db() *DB { return s.S.W.DB }

func (s *Storer) mk(r Row) authboss.User {
	if s.S.Cfg.OneTimeUser {
		return &UserOT{Row: r.Copy()}
	}
	return &UserPlain{Row: r.Copy()}
}

func (s *Storer) fault(op string, notFound error) error {
	return s.S.seam("db."+op, notFound)
}

// Load returns a fresh copy.
func (s *Storer) Load(_ context.Context, key string) (authboss.User, error) {
	if err := s.fault("Load", authboss.ErrUserNotFound); err != nil {
		return nil, err
	}
	defer s.S.guard()()
	r, ok := s.db().Users[key]
	s.S.note("Load %s %v %+v", key, ok, r)
	if !ok {
		return nil, authboss.ErrUserNotFound
	}
	return s.mk(r), nil
}

// Save stores a copy; never creates.
func (s *Storer) Save(_ context.Context, user authboss.User) error {
	if err := s.fault("Save", authboss.ErrUserNotFound); err != nil {
		return err
	}
	defer s.S.guard()()
	r, ok := rowOf(user)
	if !ok {
		return errors.New("storer: foreign user type")
	}
	_, ok = s.db().Users[r.PID]
	s.S.note("Save %s %v", r.PID, ok)
	if !ok {
		return authboss.ErrUserNotFound
	}
	s.db().Users[r.PID] = r.Copy()
	return nil
}

// New creates a blank user (not persisted).
func (s *Storer) New(_ context.Context) authboss.User { return s.mk(Row{}) }

// Create inserts; never overwrites.
func (s *Storer) Create(_ context.Context, user authboss.User) error {
	if err := s.fault("Create", authboss.ErrUserFound); err != nil {
		return err
	}
	defer s.S.guard()()
	r, ok := rowOf(user)
	if !ok {
		return errors.New("storer: foreign user type")
	}
	_, exists := s.db().Users[r.PID]
	s.S.note("Create %s %v", r.PID, exists)
	if exists {
		return authboss.ErrUserFound
	}
	row := r.Copy()
	if row.Email == "" {
		row.Email = row.PID
	}
	// When the confirm module is not in use the application has no notion
	// of unconfirmed accounts: rows are created confirmed.
	if !s.S.Cfg.Has("confirm") {
		row.Confirmed = true
	}
	s.db().Users[row.PID] = row
	return nil
}

// LoadByConfirmSelector finds by selector.
func (s *Storer) LoadByConfirmSelector(_ context.Context, selector string) (authboss.ConfirmableUser, error) {
	if err := s.fault("LoadByConfirmSelector", authboss.ErrUserNotFound); err != nil {
		return nil, err
	}
	defer s.S.guard()()
	// plain equality, like `WHERE confirm_selector = ?`: an empty selector matches rows without one
	for _, pid := range s.db().PIDs() {
		if r := s.db().Users[pid]; r.ConfirmSelector == selector {
			s.S.note("LoadByConfirmSelector %+v", r)
			return s.mk(r).(authboss.ConfirmableUser), nil
		}
	}
	return nil, authboss.ErrUserNotFound
}

// LoadByRecoverSelector finds by selector.
func (s *Storer) LoadByRecoverSelector(_ context.Context, selector string) (authboss.RecoverableUser, error) {
	if err := s.fault("LoadByRecoverSelector", authboss.ErrUserNotFound); err != nil {
		return nil, err
	}
	defer s.S.guard()()
	for _, pid := range s.db().PIDs() {
		if r := s.db().Users[pid]; r.RecoverSelector == selector {
			s.S.note("LoadByRecoverSelector %+v", r)
			return s.mk(r).(authboss.RecoverableUser), nil
		}
	}
	return nil, authboss.ErrUserNotFound
}

// AddRememberToken adds a (pid, token) row.
func (s *Storer) AddRememberToken(_ context.Context, pid, token string) error {
	if err := s.fault("AddRememberToken", nil); err != nil {
		return err
	}
	defer s.S.guard()()
	s.db().Tokens[pid] = append(s.db().Tokens[pid], token)
	return nil
}

// DelRememberTokens removes all of a pid's tokens.
func (s *Storer) DelRememberTokens(_ context.Context, pid string) error {
	if err := s.fault("DelRememberTokens", nil); err != nil {
		return err
	}
	defer s.S.guard()()
	delete(s.db().Tokens, pid)
	return nil
}

// UseRememberToken finds the pair and deletes it.
func (s *Storer) UseRememberToken(_ context.Context, pid, token string) error {
	if err := s.fault("UseRememberToken", authboss.ErrTokenNotFound); err != nil {
		return err
	}
	defer s.S.guard()()
	toks := s.db().Tokens[pid]
	for i, t := range toks {
		if t == token {
			if !s.S.Conc {
				s.S.UsedTokens = append(s.S.UsedTokens, token)
			}
			s.S.note("UseRememberToken ok")
			n := append(append([]string(nil), toks[:i]...), toks[i+1:]...)
			if len(n) == 0 {
				delete(s.db().Tokens, pid)
			} else {
				s.db().Tokens[pid] = n
			}
			return nil
		}
	}
	return authboss.ErrTokenNotFound
}

// NewFromOAuth2 looks the identity up or builds a new (unsaved) user.
func (s *Storer) NewFromOAuth2(_ context.Context, provider string, details map[string]string) (authboss.OAuth2User, error) {
	if err := s.fault("NewFromOAuth2", nil); err != nil {
		return nil, err
	}
	defer s.S.guard()()
	uid := details["uid"]
	pid := authboss.MakeOAuth2PID(provider, uid)
	if r, ok := s.db().Users[pid]; ok {
		return s.mk(r).(authboss.OAuth2User), nil
	}
	r := Row{PID: pid, OAuth2UID: uid, OAuth2Provider: provider, Email: details["email"], Confirmed: true}
	return s.mk(r).(authboss.OAuth2User), nil
}

// SaveOAuth2 upserts.
func (s *Storer) SaveOAuth2(_ context.Context, user authboss.OAuth2User) error {
	if err := s.fault("SaveOAuth2", nil); err != nil {
		return err
	}
	defer s.S.guard()()
	r, ok := rowOf(user)
	if !ok {
		return errors.New("storer: foreign user type")
	}
	s.db().Users[r.PID] = r.Copy()
	return nil
}

// PIDs2 returns the sorted pids that have remember-token rows.
func (d *DB) PIDs2() []string {
	ks := make([]string, 0, len(d.Tokens))
	for k := range d.Tokens {
		ks = append(ks, k)
	}
	sort.Strings(ks)
	return ks
}
