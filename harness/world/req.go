package world

import (
	"bytes"
	"crypto/rand"
	"encoding/json"
	"fmt"
	"github.com/volatiletech/authboss/v3/defaults"
	"net/http"
	"net/http/httptest"
	"net/url"
	"runtime/debug"
	"sort"
	"strings"
	"verif/shim/vsmtp"

	"github.com/volatiletech/authboss/v3"
	"verif/shim/vtime"
)

func newMailer(s *Stack) authboss.Mailer {
	if s.Cfg.SMTPMailer {
		// the shipped SMTP mailer; under the schedule-engine overlay net/smtp is
		// the vsmtp shim, which delivers into the world's outbox
		vsmtp.SetDeliver(func(addr, from string, to []string, msg []byte) error {
			s.point("smtp.SendMail")
			b := ""
			if s.Split != nil && len(to) > 0 {
				b = s.Split.Addr[to[0]]
			}
			defer s.guardB(b)()
			mw := s.worldB(b)
			mw.Mails = append(mw.Mails, Mail{To: to, Text: string(msg)})
			return nil
		})
		return defaults.NewSMTPMailer("smtp.site.test:25", nil)
	}
	if s.Cfg.LogMailer {
		return defaults.NewLogMailer(logMailSink{s})
	}
	return mailer{s}
}

// logMailSink is the io.Writer behind the shipped defaults.LogMailer. Every Write is a scheduling
// point; the world's outbox is re-derived from the stream: a mail is what lies between two
// terminating MIME boundaries, addressed to whatever its first line says. A piece that does not
// start with a To header (a torn mail) is kept with no recipient.
type logMailSink struct{ s *Stack }

const logMailEnd = "--===============284fad24nao8f4na284f2n4==--\r\n"

func (l logMailSink) Write(p []byte) (int, error) {
	l.s.point("logmailer.Write")
	b := ""
	if l.s.Split != nil && strings.HasPrefix(string(p), "To: ") {
		if j := strings.Index(string(p), "\r\n"); j > 0 {
			b = l.s.Split.Addr[strings.Split(string(p)[4:j], ", ")[0]]
		}
	}
	defer l.s.guardB(b)()
	w := l.s.worldB(b)
	w.MailStream += string(p)
	w.Mails = ParseMailStream(w.MailStream)
	return len(p), nil
}

// ParseMailStream splits a LogMailer stream into complete mails.
func ParseMailStream(stream string) []Mail {
	var out []Mail
	for {
		i := strings.Index(stream, logMailEnd)
		if i < 0 {
			return out
		}
		piece := stream[:i+len(logMailEnd)]
		stream = stream[i+len(logMailEnd):]
		m := Mail{Text: piece}
		if strings.HasPrefix(piece, "To: ") {
			if j := strings.Index(piece, "\r\n"); j > 0 {
				m.To = strings.Split(piece[4:j], ", ")
			}
		}
		out = append(out, m)
	}
}

// Req describes one HTTP request by a browser.
type Req struct {
	Browser   string
	Method    string
	Path      string            // path incl. query, relative to the site root (authboss routes include the mount)
	Form      map[string]string // body fields (sent as a form or as a JSON object, per Config.JSON)
	RawBody   string            // sent verbatim instead of Form when non-empty
	CType     string            // overrides the content type
	ForceForm bool              // send a form body even when Config.JSON
	ForceJSON bool
	Header    map[string]string // extra request headers

	// Tag says what the request is, for the oracles (never sent).
	Tag Tag
}

// Tag is the oracle-side description of a request.
type Tag struct {
	Kind     string // login otplogin logout register confirm recover_start recover_end totp_* sms_* regen verify_* oauth_start oauth_cb open prot full put otp_add otp_clear
	PID      string // account named in the request
	Secret   string // password / otp / token / code presented
	Recovery string // recovery code presented
	Provider string
	State    string
	Code     string
	Err      string
	RM       bool
	Note     string // symbolic description of the secret ("pw:cur(U1)", "otp:dead", ...)
}

// Obs is everything observable about one executed request.
type Obs struct {
	Req      Req
	Status   int
	Header   http.Header
	Body     string
	JSON     map[string]interface{}
	Location string // Location header, or the JSON "location" of an API redirect
	Panic    string
	ErrLog   string // the error-handler log line, if the handler returned an error
	Probe    *ProbeInfo
	Wrote    bool // whether anything (header/body) was written

	SessBefore, SessAfter map[string]string
	CookBefore, CookAfter map[string]string

	SeamCalls  []string
	FaultFired []string
	UsedTokens []string // remember-token hashes consumed (UseRememberToken succeeded) during the request
	Mails      []Mail
	SMS        []SMSMsg
	Log        []string
}

// UIDBefore/After are the session user before and after the request.
func (o *Obs) UIDBefore() string { return o.SessBefore[authboss.SessionKey] }
func (o *Obs) UIDAfter() string  { return o.SessAfter[authboss.SessionKey] }

// OK reports a success-class response: no panic, no handler error, 2xx/3xx and
// no failure marker in a JSON body.
func (o *Obs) OK() bool {
	if o.Panic != "" || o.ErrLog != "" || o.Status >= 400 || !o.Wrote {
		return false
	}
	if o.JSON != nil {
		if st, _ := o.JSON["status"].(string); st == "failure" {
			return false
		}
	}
	if _, ok := o.SessAfter[authboss.FlashErrorKey]; ok && o.SessBefore[authboss.FlashErrorKey] != o.SessAfter[authboss.FlashErrorKey] {
		return false
	}
	return true
}

func copyMap(m map[string]string) map[string]string {
	c := make(map[string]string, len(m))
	for k, v := range m {
		c[k] = v
	}
	return c
}

type recorder struct {
	*httptest.ResponseRecorder
	wrote bool
}

func (r *recorder) WriteHeader(c int) { r.wrote = true; r.ResponseRecorder.WriteHeader(c) }
func (r *recorder) Write(b []byte) (int, error) {
	r.wrote = true
	return r.ResponseRecorder.Write(b)
}

// Do executes one request against world w (which it mutates) and returns the
// observation. The virtual clock and crypto/rand are pointed at w first.
func (s *Stack) Do(w *World, rq Req) *Obs {
	s.W = w
	w.Mails, w.SMS, w.Log, w.MailStream = nil, nil, nil, ""
	vtime.Set(w.Now)
	rand.Reader = s.rng
	s.seamCalls, s.faultFired, s.stateWrites, s.UsedTokens = nil, nil, 0, nil
	s.probe = nil

	if rq.Method == "" {
		rq.Method = "GET"
	}
	b := w.Browsers[rq.Browser]
	if b == nil {
		panic("unknown browser " + rq.Browser)
	}
	o := &Obs{Req: rq, SessBefore: copyMap(b.Session), CookBefore: copyMap(b.Cookies)}

	asJSON := (s.Cfg.JSON || rq.ForceJSON) && !rq.ForceForm
	var body []byte
	ctype := ""
	if rq.RawBody != "" {
		body = []byte(rq.RawBody)
	} else if rq.Form != nil {
		if asJSON {
			body, _ = json.Marshal(rq.Form)
		} else {
			v := url.Values{}
			for k, val := range rq.Form {
				v.Set(k, val)
			}
			body = []byte(v.Encode())
		}
	} else if asJSON && rq.Method != "GET" {
		body = []byte("{}")
	}
	if asJSON {
		ctype = "application/json"
	} else if rq.Method != "GET" {
		ctype = "application/x-www-form-urlencoded"
	}
	if rq.CType != "" {
		ctype = rq.CType
	}
	hr, err := http.NewRequest(rq.Method, "http://site.test"+rq.Path, bytes.NewReader(body))
	if err != nil {
		// the request cannot be expressed (bad URL): the client never sends it
		o.Status = -1
		o.SessAfter, o.CookAfter = copyMap(b.Session), copyMap(b.Cookies)
		return o
	}
	hr.RemoteAddr = "192.0.2.1:1234"
	hr.RequestURI = rq.Path
	if ctype != "" {
		hr.Header.Set("Content-Type", ctype)
	}
	hr.Header.Set("X-Browser", rq.Browser)
	for k, v := range rq.Header {
		hr.Header.Set(k, v)
	}
	hr = hr.WithContext(contextWithBrowser(hr.Context(), rq.Browser))

	rec := &recorder{ResponseRecorder: httptest.NewRecorder()}
	rec.Header().Set("X-Browser-Echo", rq.Browser)
	func() {
		defer func() {
			if p := recover(); p != nil {
				o.Panic = fmt.Sprintf("%v\n%s", p, debug.Stack())
			}
		}()
		s.Handler.ServeHTTP(rec, hr)
	}()

	o.Wrote = rec.wrote
	o.Status = rec.Code
	if !rec.wrote {
		o.Status = 0
	}
	o.Header = rec.Header().Clone()
	o.Header.Del("X-Browser-Echo")
	o.Body = rec.Body.String()
	if strings.HasPrefix(o.Header.Get("Content-Type"), "application/json") {
		var m map[string]interface{}
		if json.Unmarshal(rec.Body.Bytes(), &m) == nil {
			o.JSON = m
		}
	}
	o.Location = o.Header.Get("Location")
	if o.Location == "" && o.JSON != nil {
		if l, ok := o.JSON["location"].(string); ok {
			o.Location = l
		}
	}
	o.SessAfter, o.CookAfter = copyMap(b.Session), copyMap(b.Cookies)
	o.SeamCalls = s.seamCalls
	o.FaultFired = s.faultFired
	o.UsedTokens = s.UsedTokens
	o.Probe = s.probe
	o.Mails, o.SMS, o.Log = w.Mails, w.SMS, w.Log
	for _, l := range w.Log {
		if strings.Contains(l, "[EROR]: request error from") {
			o.ErrLog = l
		}
	}
	return o
}

// Brief renders the observation in one line for transcripts.
func (o *Obs) Brief() string {
	var sb strings.Builder
	fmt.Fprintf(&sb, "%s %s %s -> %d", o.Req.Browser, o.Req.Method, o.Req.Path, o.Status)
	if o.Location != "" {
		fmt.Fprintf(&sb, " loc=%q", o.Location)
	}
	if o.Panic != "" {
		fmt.Fprintf(&sb, " PANIC(%s)", strings.SplitN(o.Panic, "\n", 2)[0])
	}
	if o.ErrLog != "" {
		sb.WriteString(" handler-error")
	}
	fmt.Fprintf(&sb, " sess=%s cookies=%s", fmtMap(o.SessAfter), fmtMap(o.CookAfter))
	return sb.String()
}

func fmtMap(m map[string]string) string {
	ks := make([]string, 0, len(m))
	for k := range m {
		ks = append(ks, k)
	}
	sort.Strings(ks)
	var sb strings.Builder
	sb.WriteByte('{')
	for i, k := range ks {
		if i > 0 {
			sb.WriteByte(' ')
		}
		v := m[k]
		if len(v) > 24 {
			v = v[:10] + "…" + v[len(v)-6:]
		}
		fmt.Fprintf(&sb, "%s=%s", k, v)
	}
	sb.WriteByte('}')
	return sb.String()
}

// DoConc executes one request for concurrent use (schedule engine, race
// pass): no per-request bookkeeping on the stack, nothing global is touched.
// The caller owns the clock and the random stream.
func (s *Stack) DoConc(w *World, rq Req) *Obs {
	if rq.Method == "" {
		rq.Method = "GET"
	}
	o := &Obs{Req: rq}
	asJSON := (s.Cfg.JSON || rq.ForceJSON) && !rq.ForceForm
	var body []byte
	ctype := ""
	if rq.Form != nil {
		if asJSON {
			body, _ = json.Marshal(rq.Form)
		} else {
			v := url.Values{}
			for k, val := range rq.Form {
				v.Set(k, val)
			}
			body = []byte(v.Encode())
		}
	} else if asJSON && rq.Method != "GET" {
		body = []byte("{}")
	}
	if asJSON {
		ctype = "application/json"
	} else if rq.Method != "GET" {
		ctype = "application/x-www-form-urlencoded"
	}
	hr, err := http.NewRequest(rq.Method, "http://site.test"+rq.Path, bytes.NewReader(body))
	if err != nil {
		o.Status = -1
		return o
	}
	hr.RemoteAddr = "192.0.2.1:1234"
	if ctype != "" {
		hr.Header.Set("Content-Type", ctype)
	}
	hr.Header.Set("X-Browser", rq.Browser)
	for k, v := range rq.Header {
		hr.Header.Set(k, v)
	}
	hr = hr.WithContext(contextWithBrowser(hr.Context(), rq.Browser))
	rec := &recorder{ResponseRecorder: httptest.NewRecorder()}
	rec.Header().Set("X-Browser-Echo", rq.Browser)
	func() {
		defer func() {
			if p := recover(); p != nil {
				o.Panic = fmt.Sprintf("%v\n%s", p, debug.Stack())
			}
		}()
		s.Handler.ServeHTTP(rec, hr)
	}()
	o.Wrote = rec.wrote
	o.Status = rec.Code
	o.Header = rec.Header().Clone()
	o.Header.Del("X-Browser-Echo")
	o.Body = rec.Body.String()
	if strings.HasPrefix(o.Header.Get("Content-Type"), "application/json") {
		var m map[string]interface{}
		if json.Unmarshal(rec.Body.Bytes(), &m) == nil {
			o.JSON = m
		}
	}
	o.Location = o.Header.Get("Location")
	func() {
		defer s.guardB(rq.Browser)()
		b := w.Browsers[rq.Browser]
		o.SessAfter, o.CookAfter = copyMap(b.Session), copyMap(b.Cookies)
	}()
	return o
}
