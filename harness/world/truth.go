package world

import (
	"crypto/sha512"
	"encoding/base64"
	"encoding/json"
	"net/url"
	"strings"
	"time"

	"verif/shim/vbcrypt"
)

// Secret is one credential the oracle knows about, with its own record of who
// it was issued to and whether it has been spent. The oracle never asks the
// library whether a credential is valid.
type Secret struct {
	Kind    string // otp | rm | rtok | ctok | rc | vtok
	Owner   string // account it was issued to
	Val     string // exactly what the user holds
	Browser string // session it is bound to (vtok) or was delivered to (rm)
	At      time.Time
	Dead    bool
	Why     string // used | superseded | revoked | cleared
	Used    bool   // sticky: was accepted once
}

// Truth is the oracle's memory.
type Truth struct {
	Secrets []Secret
	// SMSLog is every text message ever delivered, newest last (bounded).
	SMSLog []SMSMsg
	// Flags are scenario-specific sticky facts ("registered:U3", ...).
	Flags map[string]string
	// Times / Ints hold reference-model state (canonicalised as offsets / literally).
	Times map[string]time.Time
	Ints  map[string]int
}

// NewTruth returns an empty memory.
func NewTruth() *Truth {
	return &Truth{Flags: map[string]string{}, Times: map[string]time.Time{}, Ints: map[string]int{}}
}

// Clone deep-copies.
func (t *Truth) Clone() *Truth {
	c := &Truth{Secrets: append([]Secret(nil), t.Secrets...), SMSLog: append([]SMSMsg(nil), t.SMSLog...), Flags: map[string]string{}}
	for k, v := range t.Flags {
		c.Flags[k] = v
	}
	c.Times, c.Ints = map[string]time.Time{}, map[string]int{}
	for k, v := range t.Times {
		c.Times[k] = v
	}
	for k, v := range t.Ints {
		c.Ints[k] = v
	}
	return c
}

// Add registers a newly issued secret.
func (t *Truth) Add(s Secret) { t.Secrets = append(t.Secrets, s) }

// Find returns the secrets matching kind/owner ("" matches any), newest last.
func (t *Truth) Find(kind, owner string) []*Secret {
	var out []*Secret
	for i := range t.Secrets {
		s := &t.Secrets[i]
		if (kind == "" || s.Kind == kind) && (owner == "" || s.Owner == owner) {
			out = append(out, s)
		}
	}
	return out
}

// Live returns the live secrets of kind/owner, newest last.
func (t *Truth) Live(kind, owner string) []*Secret {
	var out []*Secret
	for _, s := range t.Find(kind, owner) {
		if !s.Dead {
			out = append(out, s)
		}
	}
	return out
}

// Newest returns the newest secret of kind/owner matching dead, or nil.
func (t *Truth) Newest(kind, owner string, dead bool) *Secret {
	l := t.Find(kind, owner)
	for i := len(l) - 1; i >= 0; i-- {
		if l[i].Dead == dead {
			return l[i]
		}
	}
	return nil
}

// ByVal looks a secret up by its exact value.
func (t *Truth) ByVal(kind, val string) *Secret {
	for i := len(t.Secrets) - 1; i >= 0; i-- {
		s := &t.Secrets[i]
		if s.Kind == kind && s.Val == val {
			return s
		}
	}
	return nil
}

// NewestUsed returns the newest secret of kind/owner that was spent by being accepted.
func (t *Truth) NewestUsed(kind, owner string) *Secret {
	l := t.Find(kind, owner)
	for i := len(l) - 1; i >= 0; i-- {
		if l[i].Dead && l[i].Used {
			return l[i]
		}
	}
	return nil
}

// NewestDeadUnused returns the newest dead secret of kind/owner that was never accepted.
func (t *Truth) NewestDeadUnused(kind, owner string) *Secret {
	l := t.Find(kind, owner)
	for i := len(l) - 1; i >= 0; i-- {
		if l[i].Dead && !l[i].Used {
			return l[i]
		}
	}
	return nil
}

// Kill marks live secrets of kind/owner dead.
func (t *Truth) Kill(kind, owner, why string) {
	for _, s := range t.Live(kind, owner) {
		s.Dead, s.Why = true, why
	}
}

// Prune bounds the memory: per (kind, owner) keep all live secrets and the
// newest maxDead dead ones. Dead secrets only serve as negative test inputs.
func (t *Truth) Prune(maxDead int) {
	count := map[string]int{}
	keep := make([]bool, len(t.Secrets))
	for i := len(t.Secrets) - 1; i >= 0; i-- {
		s := t.Secrets[i]
		if !s.Dead {
			keep[i] = true
			continue
		}
		k := s.Kind + "\x00" + s.Owner
		if s.Used {
			k += "\x00used" // spent-by-use and removed-otherwise are kept separately: both are replay candidates
		}
		if count[k] < maxDead {
			keep[i] = true
			count[k]++
		}
	}
	out := t.Secrets[:0:0]
	for i, s := range t.Secrets {
		if keep[i] {
			out = append(out, s)
		}
	}
	t.Secrets = out
	if len(t.SMSLog) > 4 {
		t.SMSLog = append([]SMSMsg(nil), t.SMSLog[len(t.SMSLog)-4:]...)
	}
}

// ---------------------------------------------------------------- derived forms

// B64Sha512 is the stored form of OTPs.
func B64Sha512(s string) string {
	sum := sha512.Sum512([]byte(s))
	return base64.StdEncoding.EncodeToString(sum[:])
}

// TokenParts returns the stored selector and verifier of a mailed token.
func TokenParts(token string) (selector, verifier string, ok bool) {
	raw, err := base64.URLEncoding.DecodeString(token)
	if err != nil || len(raw) != 64 {
		return "", "", false
	}
	a := sha512.Sum512(raw[:32])
	b := sha512.Sum512(raw[32:])
	return base64.StdEncoding.EncodeToString(a[:]), base64.StdEncoding.EncodeToString(b[:]), true
}

// RememberHash returns the stored form of a remember cookie.
func RememberHash(cookie string) (string, bool) {
	raw, err := base64.URLEncoding.DecodeString(cookie)
	if err != nil {
		return "", false
	}
	sum := sha512.Sum512(raw)
	return base64.StdEncoding.EncodeToString(sum[:]), true
}

// PlainOf returns the plaintext a stored bcrypt hash was produced from, if
// the hash was produced in this process.
func PlainOf(hash string) (string, bool) { return vbcrypt.Plain(hash) }

// HasRecoveryCode reports whether the stored CSV list holds a hash of code.
func HasRecoveryCode(stored, code string) bool {
	if stored == "" {
		return false
	}
	for _, h := range strings.Split(stored, ",") {
		if p, ok := PlainOf(h); ok && p == code {
			return true
		}
	}
	return false
}

// HasOTP reports whether the stored CSV list holds the digest of otp.
func HasOTP(stored, otp string) bool {
	if stored == "" {
		return false
	}
	want := B64Sha512(otp)
	for _, h := range strings.Split(stored, ",") {
		if h == want {
			return true
		}
	}
	return false
}

// ---------------------------------------------------------------- generic observation of issuance

// MailToken extracts (kind, token) from a mail rendered by the JSON renderer.
func MailToken(m Mail) (kind, token string, ok bool) {
	for _, body := range []string{m.Text, m.HTML} {
		var d map[string]interface{}
		if json.Unmarshal([]byte(body), &d) != nil {
			continue
		}
		for _, key := range []string{"url", "recover_url"} {
			us, _ := d[key].(string)
			if us == "" {
				continue
			}
			// The link is classified on its text, not on its parsed path: with an empty Paths.Mount the
			// library joins RootURL and "recover/end" without a slash ("http://site.testrecover/end?..."),
			// so the path a URL parser sees is not the route. (A defect of the link, but none of the
			// properties here is about the link's shape; the token in it is what matters.)
			i := strings.IndexByte(us, '?')
			if i < 0 {
				continue
			}
			q, err := url.ParseQuery(us[i+1:])
			if err != nil {
				continue
			}
			switch head := us[:i]; {
			case strings.HasSuffix(head, "email/verify/end"):
				return "vtok", q.Get("token"), true
			case strings.HasSuffix(head, "recover/end"):
				return "rtok", q.Get("token"), true
			case strings.HasSuffix(head, "confirm"):
				return "ctok", q.Get("cnf"), true
			}
		}
	}
	return "", "", false
}

// OwnerByEmail returns the account whose primary address is addr.
func (w *World) OwnerByEmail(addr string) string {
	for _, pid := range w.DB.PIDs() {
		if w.DB.Users[pid].Email == addr {
			return pid
		}
	}
	return ""
}

// ObserveIssuance registers everything the response, the outboxes and the
// jars show was newly issued by this step. forPID names the account a mail
// was requested for when the action knows it ("" = derive from the primary
// recipient).
func (t *Truth) ObserveIssuance(pre *World, o *Obs, post *World, forPID string) {
	now := post.Now
	for _, m := range o.Mails {
		kind, tok, ok := MailToken(m)
		if !ok {
			continue
		}
		owner := forPID
		if owner == "" && len(m.To) > 0 {
			owner = post.OwnerByEmail(m.To[0])
		}
		if kind == "vtok" {
			owner = o.UIDBefore()
		}
		if kind == "rtok" || kind == "ctok" {
			t.Kill(kind, owner, "superseded")
		}
		if kind == "vtok" {
			for _, s := range t.Live("vtok", "") {
				if s.Browser == o.Req.Browser {
					s.Dead, s.Why = true, "superseded"
				}
			}
		}
		t.Add(Secret{Kind: kind, Owner: owner, Val: tok, Browser: o.Req.Browser, At: now})
	}
	if o.JSON != nil {
		if v, ok := o.JSON["otp"].(string); ok && v != "" {
			t.Add(Secret{Kind: "otp", Owner: o.UIDBefore(), Val: v, Browser: o.Req.Browser, At: now})
		}
		if l, ok := o.JSON["recovery_codes"].([]interface{}); ok && len(l) > 0 {
			owner := o.UIDBefore()
			t.Kill("rc", owner, "superseded")
			for _, c := range l {
				if cs, ok := c.(string); ok {
					t.Add(Secret{Kind: "rc", Owner: owner, Val: cs, At: now})
				}
			}
		}
	}
	if c := o.CookAfter["rm"]; c != "" && c != o.CookBefore["rm"] {
		// The account a remember token belongs to is the one the server filed
		// it under (a single request can both rotate one account's cookie and
		// log another account in, so the session user is not a reliable owner).
		// A cookie the server has no row for belongs to nobody.
		owner := ""
		if h, ok := RememberHash(c); ok {
			for _, pid := range post.DB.PIDs2() {
				for _, th := range post.DB.Tokens[pid] {
					if th == h {
						owner = pid
					}
				}
			}
		}
		t.Add(Secret{Kind: "rm", Owner: owner, Val: c, Browser: o.Req.Browser, At: now})
	}
	for _, m := range o.SMS {
		if b := post.Browsers[m.Browser]; b != nil {
			m.For = b.Session["sms_pending"]
			if m.For == "" {
				m.For = b.Session["uid"]
			}
		}
		t.SMSLog = append(t.SMSLog, m)
	}
}

// ObserveStorage updates liveness of the kinds whose consumption is defined by
// durable removal (OTPs, recovery codes): once the stored list no longer holds
// the value's hash it can never be live again.
func (t *Truth) ObserveStorage(post *World) {
	for i := range t.Secrets {
		s := &t.Secrets[i]
		if s.Dead {
			continue
		}
		row, ok := post.DB.Users[s.Owner]
		switch s.Kind {
		case "otp":
			if !ok || !HasOTP(row.OTPs, s.Val) {
				s.Dead, s.Why = true, "removed"
			}
		case "rc":
			if !ok || !HasRecoveryCode(row.RecoveryCodes, s.Val) {
				s.Dead, s.Why = true, "removed"
			}
		}
	}
}
