// Package world is the closed environment authboss runs in under the checker:
// a storer that behaves like a database (copies in, copies out), per-browser
// session and cookie jars, a virtual clock, a deterministic crypto/rand stream,
// mail/SMS outboxes, a log buffer and a fake OAuth2 provider. All of it is
// plain data that can be cloned, hashed and compared.
package world

import (
	"sort"
	"sync"
	"time"
)

// Row is one account as the database holds it.
type Row struct {
	PID      string
	Email    string
	Password string

	Confirmed       bool
	ConfirmSelector string
	ConfirmVerifier string

	AttemptCount int
	LastAttempt  time.Time
	Locked       time.Time

	RecoverSelector string
	RecoverVerifier string
	RecoverExpiry   time.Time

	OTPs string

	TOTPSecretKey string
	TOTPLastCode  string

	SMSPhoneNumber string
	SMSSeed        string

	RecoveryCodes string

	OAuth2UID          string
	OAuth2Provider     string
	OAuth2AccessToken  string
	OAuth2RefreshToken string
	OAuth2Expiry       time.Time

	SecondaryEmails []string
	Arbitrary       map[string]string
}

// Copy returns a deep copy.
func (r Row) Copy() Row {
	c := r
	if r.SecondaryEmails != nil {
		c.SecondaryEmails = append([]string(nil), r.SecondaryEmails...)
	}
	if r.Arbitrary != nil {
		c.Arbitrary = make(map[string]string, len(r.Arbitrary))
		for k, v := range r.Arbitrary {
			c.Arbitrary[k] = v
		}
	}
	return c
}

func (r *Row) GetPID() string                 { return r.PID }
func (r *Row) PutPID(s string)                { r.PID = s }
func (r *Row) GetPassword() string            { return r.Password }
func (r *Row) PutPassword(s string)           { r.Password = s }
func (r *Row) GetEmail() string               { return r.Email }
func (r *Row) PutEmail(s string)              { r.Email = s }
func (r *Row) GetConfirmed() bool             { return r.Confirmed }
func (r *Row) PutConfirmed(b bool)            { r.Confirmed = b }
func (r *Row) GetConfirmSelector() string     { return r.ConfirmSelector }
func (r *Row) PutConfirmSelector(s string)    { r.ConfirmSelector = s }
func (r *Row) GetConfirmVerifier() string     { return r.ConfirmVerifier }
func (r *Row) PutConfirmVerifier(s string)    { r.ConfirmVerifier = s }
func (r *Row) GetAttemptCount() int           { return r.AttemptCount }
func (r *Row) PutAttemptCount(n int)          { r.AttemptCount = n }
func (r *Row) GetLastAttempt() time.Time      { return r.LastAttempt }
func (r *Row) PutLastAttempt(t time.Time)     { r.LastAttempt = t }
func (r *Row) GetLocked() time.Time           { return r.Locked }
func (r *Row) PutLocked(t time.Time)          { r.Locked = t }
func (r *Row) GetRecoverSelector() string     { return r.RecoverSelector }
func (r *Row) PutRecoverSelector(s string)    { r.RecoverSelector = s }
func (r *Row) GetRecoverVerifier() string     { return r.RecoverVerifier }
func (r *Row) PutRecoverVerifier(s string)    { r.RecoverVerifier = s }
func (r *Row) GetRecoverExpiry() time.Time    { return r.RecoverExpiry }
func (r *Row) PutRecoverExpiry(t time.Time)   { r.RecoverExpiry = t }
func (r *Row) GetSecondaryEmails() []string   { return append([]string(nil), r.SecondaryEmails...) }
func (r *Row) GetOTPs() string                { return r.OTPs }
func (r *Row) PutOTPs(s string)               { r.OTPs = s }
func (r *Row) GetTOTPSecretKey() string       { return r.TOTPSecretKey }
func (r *Row) PutTOTPSecretKey(s string)      { r.TOTPSecretKey = s }
func (r *Row) GetSMSPhoneNumber() string      { return r.SMSPhoneNumber }
func (r *Row) PutSMSPhoneNumber(s string)     { r.SMSPhoneNumber = s }
func (r *Row) GetSMSPhoneNumberSeed() string  { return r.SMSSeed }
func (r *Row) GetRecoveryCodes() string       { return r.RecoveryCodes }
func (r *Row) PutRecoveryCodes(s string)      { r.RecoveryCodes = s }
func (r *Row) IsOAuth2User() bool             { return r.OAuth2UID != "" || r.OAuth2Provider != "" }
func (r *Row) GetOAuth2UID() string           { return r.OAuth2UID }
func (r *Row) GetOAuth2Provider() string      { return r.OAuth2Provider }
func (r *Row) GetOAuth2AccessToken() string   { return r.OAuth2AccessToken }
func (r *Row) GetOAuth2RefreshToken() string  { return r.OAuth2RefreshToken }
func (r *Row) GetOAuth2Expiry() time.Time     { return r.OAuth2Expiry }
func (r *Row) PutOAuth2UID(s string)          { r.OAuth2UID = s }
func (r *Row) PutOAuth2Provider(s string)     { r.OAuth2Provider = s }
func (r *Row) PutOAuth2AccessToken(s string)  { r.OAuth2AccessToken = s }
func (r *Row) PutOAuth2RefreshToken(s string) { r.OAuth2RefreshToken = s }
func (r *Row) PutOAuth2Expiry(t time.Time)    { r.OAuth2Expiry = t }

// GetArbitrary is only used to re-display form data.
func (r *Row) GetArbitrary() map[string]string {
	c := map[string]string{}
	for k, v := range r.Arbitrary {
		c[k] = v
	}
	return c
}

// PutArbitrary follows the documented contract ("only pull the keys you
// want"): everything received is recorded in LastArbitrary (side channel for
// the whitelist oracle); the credential form fields are never persisted.
func (r *Row) PutArbitrary(m map[string]string) {
	r.Arbitrary = map[string]string{}
	for k, v := range m {
		if k == "password" || k == "confirm_password" {
			continue
		}
		if k == "email" {
			r.Email = v
			continue
		}
		r.Arbitrary[k] = v
	}
	la := map[string]string{}
	for k, v := range m {
		la[k] = v
	}
	lastArbMu.Lock()
	lastArbitrary = la
	lastArbMu.Unlock()
}

// lastArbitrary is the map most recently handed to PutArbitrary (whole, unfiltered).
var (
	lastArbMu     sync.Mutex
	lastArbitrary map[string]string
)

// TakeLastArbitrary returns and clears the side channel.
func TakeLastArbitrary() map[string]string {
	lastArbMu.Lock()
	defer lastArbMu.Unlock()
	m := lastArbitrary
	lastArbitrary = nil
	return m
}

// UserPlain is the user type without TOTP replay protection.
type UserPlain struct{ Row }

// UserOT additionally implements totp2fa.UserOneTime.
type UserOT struct{ Row }

func (u *UserOT) GetTOTPLastCode() string  { return u.TOTPLastCode }
func (u *UserOT) PutTOTPLastCode(s string) { u.TOTPLastCode = s }

// rowOf extracts the row from either user type.
func rowOf(u interface{}) (*Row, bool) {
	switch x := u.(type) {
	case *UserPlain:
		return &x.Row, true
	case *UserOT:
		return &x.Row, true
	}
	return nil, false
}

func sortedKeys(m map[string]string) []string {
	ks := make([]string, 0, len(m))
	for k := range m {
		ks = append(ks, k)
	}
	sort.Strings(ks)
	return ks
}
