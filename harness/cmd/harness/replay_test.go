package main

import (
	"os"
	"testing"
)

// TestReplay re-executes one recorded violation (a replay file written by a
// check) as a plain unit test, without the explorer:
//
//	VERIF_REPLAY=/verif/replays/<file>.json bin/replaytest
//
// It fails when the recorded violation is reproduced on the current tree.
func TestReplay(t *testing.T) {
	f := os.Getenv("VERIF_REPLAY")
	if f == "" {
		t.Skip("VERIF_REPLAY not set")
	}
	reproduced, err := replayFile(f, func(s string) { t.Log(s) })
	if err != nil {
		t.Fatalf("replay error: %v", err)
	}
	if reproduced {
		t.Fatalf("the recorded violation is reproduced on the current tree (see the transcript above)")
	}
}
