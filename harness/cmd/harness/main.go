// harness is the single entry point of every check.
//
//	harness run <ID> <quick|thorough>      run all units of a check in parallel worker processes
//	harness worker <ID> <tier> <unit#>     (internal) run one unit, print its result as JSON
//	harness replay <file>                  re-execute one recorded trace, print the transcript
//	harness list
package main

import (
	"bytes"
	"encoding/json"
	"fmt"
	"os"
	"os/exec"
	"runtime"
	"strconv"
	"strings"
	"sync"
	"time"

	"verif/engine"
	"verif/props"
)

func main() {
	if len(os.Args) < 2 {
		usage()
	}
	switch os.Args[1] {
	case "list":
		for _, id := range engine.IDs() {
			fmt.Println(id)
		}
	case "run":
		if len(os.Args) < 4 {
			usage()
		}
		os.Exit(run(os.Args[2], os.Args[3]))
	case "worker":
		if len(os.Args) < 5 {
			usage()
		}
		worker(os.Args[2], os.Args[3], os.Args[4])
	case "racepass":
		reps := 5
		if len(os.Args) > 2 {
			reps, _ = strconv.Atoi(os.Args[2])
		}
		props.C20RacePass(reps)
	case "replay":
		if len(os.Args) < 3 {
			usage()
		}
		os.Exit(replay(os.Args[2]))
	default:
		usage()
	}
}

func usage() {
	fmt.Fprintln(os.Stderr, "usage: harness run <ID> <quick|thorough> | replay <file> | list")
	os.Exit(2)
}

func root() string {
	if r := os.Getenv("VERIF_ROOT"); r != "" {
		return r
	}
	return "/verif"
}

func budget(p *engine.Property, tier string) time.Duration {
	b := p.QuickBudget
	if tier == "thorough" {
		b = p.ThoroughBudget
	}
	if b == 0 {
		if tier == "thorough" {
			b = 45 * time.Minute
		} else {
			b = 300 * time.Second
		}
	}
	return b
}

func run(id, tier string) int {
	p := engine.Lookup(id)
	if p == nil {
		fmt.Fprintf(os.Stderr, "harness: unknown property %s\n", id)
		return 2
	}
	seed, _ := strconv.Atoi(os.Getenv("VERIF_SEED"))
	units := p.Units(tier)
	if f := os.Getenv("VERIF_UNITS"); f != "" {
		// debugging aid: only run the units whose name contains f (never set by the registered commands)
		var idx []int
		for i, u := range units {
			if strings.Contains(u.Name, f) {
				idx = append(idx, i)
			}
		}
		return runSubset(p, tier, units, idx)
	}
	t0 := time.Now()
	results := make([]engine.UnitResult, len(units))
	failed := make([]string, len(units))
	par := runtime.NumCPU()
	if v, err := strconv.Atoi(os.Getenv("VERIF_PAR")); err == nil && v > 0 {
		par = v
	}
	sem := make(chan struct{}, par)
	var wg sync.WaitGroup
	self, _ := os.Executable()
	for i := range units {
		wg.Add(1)
		go func(i int) {
			defer wg.Done()
			sem <- struct{}{}
			defer func() { <-sem }()
			cmd := exec.Command(self, "worker", id, tier, strconv.Itoa(i))
			cmd.Env = append(os.Environ(), "GOMAXPROCS=2", "VERIF_DEADLINE_UNIX="+strconv.FormatInt(t0.Add(budget(p, tier)).Unix(), 10))
			var out, errb bytes.Buffer
			cmd.Stdout, cmd.Stderr = &out, &errb
			err := cmd.Run()
			if err != nil {
				failed[i] = fmt.Sprintf("unit %s: %v\n%s", units[i].Name, err, tail(errb.String(), 3000))
				return
			}
			if e := json.Unmarshal(out.Bytes(), &results[i]); e != nil {
				failed[i] = fmt.Sprintf("unit %s: bad worker output: %v\n%s\n%s", units[i].Name, e, tail(out.String(), 500), tail(errb.String(), 2000))
			}
		}(i)
	}
	wg.Wait()
	bad := false
	for _, f := range failed {
		if f != "" {
			fmt.Fprintln(os.Stderr, "HARNESS-FAILURE", f)
			bad = true
		}
	}
	if bad {
		return 2
	}
	for i := range results {
		for j := range results[i].Violations {
			results[i].Violations[j].Scen = units[i].Name // the replay file must name the unit
		}
	}
	return engine.Finish(p, tier, seed, results, root(), time.Since(t0).Seconds())
}

func runSubset(p *engine.Property, tier string, units []engine.Unit, idx []int) int {
	self, _ := os.Executable()
	bad := 0
	for _, i := range idx {
		cmd := exec.Command(self, "worker", p.ID, tier, strconv.Itoa(i))
		var out bytes.Buffer
		cmd.Stdout, cmd.Stderr = &out, os.Stderr
		if err := cmd.Run(); err != nil {
			fmt.Println("unit", units[i].Name, "failed:", err)
			bad = 2
			continue
		}
		var r engine.UnitResult
		json.Unmarshal(out.Bytes(), &r)
		fmt.Printf("unit %s: states=%d transitions=%d evaluations=%d exhaustive=%v violations=%d wall=%.1fs\n", units[i].Name, r.States, r.Transitions, r.Evaluations, r.Exhaustive, len(r.Violations), r.WallS)
		for _, v := range r.Violations {
			fmt.Printf("  %s | %s | %v\n", v.Sig(), v.Detail, v.Path)
			bad = 1
		}
	}
	return bad
}

func tail(s string, n int) string {
	if len(s) > n {
		return "..." + s[len(s)-n:]
	}
	return s
}

func worker(id, tier, idx string) {
	p := engine.Lookup(id)
	i, _ := strconv.Atoi(idx)
	units := p.Units(tier)
	u := units[i]
	// the budget is the property's, counted from the start of the run; a unit that is started late still
	// gets a minimal slice of its own (internal deadlines end a unit with exhaustive=false, never with an alarm)
	dl := time.Now().Add(budget(p, tier))
	if v, err := strconv.ParseInt(os.Getenv("VERIF_DEADLINE_UNIX"), 10, 64); err == nil && v > 0 {
		dl = time.Unix(v, 0)
		slice := 45 * time.Second
		if tier == "thorough" {
			slice = 4 * time.Minute
		}
		if min := time.Now().Add(slice); dl.Before(min) {
			dl = min
		}
	}
	r := u.Run(dl)
	r.Unit = u.Name
	js, err := json.Marshal(r)
	if err != nil {
		fmt.Fprintln(os.Stderr, err)
		os.Exit(3)
	}
	os.Stdout.Write(js)
}

func replay(file string) int {
	reproduced, err := replayFile(file, func(s string) { fmt.Println(s) })
	if err != nil {
		fmt.Fprintln(os.Stderr, err)
		return 2
	}
	if reproduced {
		fmt.Println("=> the recorded violation is REPRODUCED on the current tree")
	} else {
		fmt.Println("=> the recorded violation does not occur on the current tree")
	}
	return 0
}

// replayFile re-executes a replay file; it reports whether the recorded signature occurred again.
func replayFile(file string, out func(string)) (bool, error) {
	b, err := os.ReadFile(file)
	if err != nil {
		return false, err
	}
	var rf engine.ReplayFile
	if err := json.Unmarshal(b, &rf); err != nil {
		return false, err
	}
	p := engine.Lookup(rf.Property)
	if p == nil {
		return false, fmt.Errorf("unknown property %s", rf.Property)
	}
	tier := rf.Tier
	if tier == "" {
		tier = "quick"
	}
	for _, u := range p.Units(tier) {
		if u.Name != rf.Unit {
			continue
		}
		out(fmt.Sprintf("replaying %s / %s (%s); recorded violation: %s", rf.Property, rf.Unit, tier, rf.Signature))
		found := false
		if u.Replay != nil {
			err := u.Replay(rf.Actions, func(s string) {
				out(s)
				if strings.Contains(s, "!! "+rf.Signature) {
					found = true
				}
			})
			return found, err
		}
		// product / fault / schedule units: the file names the failing input, fault point or
		// schedule; re-run the unit and look for the recorded signature
		out(fmt.Sprintf("  recorded case: %v", rf.Actions))
		r := u.Run(time.Time{})
		for _, v := range r.Violations {
			mark := "  other     "
			if v.Sig() == rf.Signature {
				mark, found = "  REPRODUCED", true
			}
			out(fmt.Sprintf("%s %s | %s | %v", mark, v.Sig(), v.Detail, v.Path))
		}
		return found, nil
	}
	return false, fmt.Errorf("unit not found: %s", rf.Unit)
}
