// Package engine holds the exhaustive explorers: E1 (explicit-state breadth
// first search over the real handlers), helpers for E2 products, and the
// reporting plumbing shared by every check.
package engine

import (
	"crypto/sha256"
	"encoding/hex"
	"fmt"
	"sort"
	"strings"
	"time"

	"verif/world"
)

// Action is one transition label. Name is symbolic and path independent; Run
// executes it on w (mutating it) and returns the observation (nil for pure
// environment steps such as advancing the clock).
type Action struct {
	Name string
	Run  func(s *world.Stack, w *world.World) *world.Obs
}

// Step is everything a monitor sees about one transition.
type Step struct {
	S      *world.Stack
	Pre    *world.World
	Act    Action
	Obs    *world.Obs
	Post   *world.World
	Path   []string // action names leading to Pre
	Report func(v Violation)
	// Count adds to the evaluation counters (E2 batteries run inside hooks).
	Count func(evals int, class string)
}

// Violation is one oracle failure.
type Violation struct {
	Rule   string // stable rule id, first component of the signature
	Attrs  string // cause attributes (signature = Rule + "/" + Attrs)
	Detail string
	Path   []string // full action list reproducing it (filled by the engine)
	Scen   string
}

// Sig is the violation's signature.
func (v Violation) Sig() string {
	if v.Attrs == "" {
		return v.Rule
	}
	return v.Rule + "/" + v.Attrs
}

// Scenario is one configuration explored by E1.
type Scenario struct {
	Name    string
	Cfg     world.Config
	Init    func(s *world.Stack) *world.World
	Actions func(s *world.Stack, w *world.World) []Action
	Monitor func(st *Step)
	// Model (optional) advances a reference model kept in Post.Truth; it runs on
	// every transition before Monitor, in the search and in every replay.
	Model func(st *Step)
	// State (optional) runs once per newly discovered canonical state (st.Post):
	// the place for E2 batteries executed on clones of every reachable state.
	State func(st *Step)
	// Cover classifies a transition for the coverage histogram / vacuity guards.
	Cover func(st *Step) []string
	Depth int           // max path length (0 = until fixpoint)
	Sat   time.Duration // saturation for instants in the canonical key
	// MaxStates caps the search (0 = none); hitting it makes the run non-exhaustive.
	MaxStates int
	// ShardN > 1 splits the search on the level-1 subtrees: this instance only
	// follows the root's actions whose index is ShardIdx modulo ShardN (the union
	// of all shards is the full search; states may be visited by several shards).
	ShardIdx, ShardN int
	// Audits is the number of canonical-key collisions that are audited: the
	// first time two different concrete worlds hash to the same canonical key,
	// the whole action menu is run from both and the canonical successors and
	// response classes must agree (run-time check of the abstraction in canon.go).
	Audits int
	// Need lists coverage classes that must be hit (vacuity guard).
	Need []string
}

// Result summarises one scenario's exploration.
type Result struct {
	Scenario                       string
	Evaluations                    int
	States                         int
	Transitions                    int
	DepthDone                      int
	Exhaustive                     bool
	CapHit                         string
	Validated                      int // distinct states whose shortest trace was replayed on a fresh instance
	Audited                        int // canonical-key collisions audited (differential successors)
	AuditActions, AuditKeyMismatch int // actions compared; of those, how many led to successors with different canonical keys (over-fine key or ordering)
	Violations                     []Violation
	Cover                          map[string]int
	Samples                        [][]string
	Vacuous                        []string
	WallS                          float64
}

type node struct {
	w    *world.World
	path []string
	key  string
}

func hashKey(s string) string {
	h := sha256.Sum256([]byte(s))
	return hex.EncodeToString(h[:12])
}

// Explore runs E1 on sc. deadline (zero = none) ends the run early with
// Exhaustive=false; it never turns into a violation.
func Explore(sc Scenario, deadline time.Time) Result {
	t0 := time.Now()
	res := Result{Scenario: sc.Name, Cover: map[string]int{}, Exhaustive: true}
	st, err := world.NewStack(sc.Cfg)
	if err != nil {
		res.Violations = append(res.Violations, Violation{Rule: "harness/init", Detail: err.Error(), Scen: sc.Name})
		return res
	}
	sat := sc.Sat
	if sat == 0 {
		sat = 13 * time.Hour
	}
	init := sc.Init(st)
	init0 := init.Clone() // the initial world is pure harness data: built once, cloned for every replay
	seen := map[string]bool{}
	sigSeen := map[string]bool{}
	firstWorld := map[string]*world.World{} // concrete representative of (some) canonical states, for the audit
	audits := sc.Audits
	if audits == 0 {
		audits = 60
	}
	firstPath := map[string][]string{}
	k0 := hashKey(init.Canon(sat))
	seen[k0] = true
	frontier := []node{{w: init, key: k0}}
	all := []node{{w: nil, key: k0}} // paths of all states, for replay validation
	depth := 0
	report := func(v Violation, path []string) {
		v.Scen = sc.Name
		v.Path = append([]string(nil), path...)
		if sigSeen[v.Sig()] {
			return
		}
		sigSeen[v.Sig()] = true
		res.Violations = append(res.Violations, v)
	}
outer:
	for len(frontier) > 0 && (sc.Depth == 0 || depth < sc.Depth) {
		depth++
		var next []node
		for _, n := range frontier {
			if !deadline.IsZero() && time.Now().After(deadline) {
				res.Exhaustive, res.CapHit = false, "deadline"
				break outer
			}
			acts := sc.Actions(st, n.w)
			for ai, a := range acts {
				if sc.ShardN > 1 && len(n.path) == 0 && ai%sc.ShardN != sc.ShardIdx {
					continue
				}
				w2 := n.w.Clone()
				obs := a.Run(st, w2)
				res.Transitions++
				full := append(append([]string(nil), n.path...), a.Name)
				step := &Step{S: st, Pre: n.w, Act: a, Obs: obs, Post: w2, Path: n.path}
				step.Report = func(v Violation) { report(v, full) }
				step.Count = func(n int, class string) {
					res.Evaluations += n
					if class != "" {
						res.Cover[class] += n
					}
				}
				if sc.Model != nil {
					sc.Model(step)
				}
				// (one documented exception: lock.Middleware / confirm.Middleware load the user with
				// LoadCurrentUserP, "panics if it cannot load the user" - a guard-route request whose
				// user load was made to fail is expected to panic; what matters is that the handler did not run)
				documented := obs != nil && obs.Req.Tag.Kind == "guard" && len(obs.FaultFired) > 0
				if obs != nil && obs.Panic != "" && sc.Monitor != nil && !documented {
					// a panic is never silently part of the state graph
					step.Report(Violation{Rule: "panic", Attrs: firstLine(obs.Panic), Detail: obs.Panic})
				}
				if sc.Monitor != nil {
					sc.Monitor(step)
				}
				if sc.Cover != nil {
					for _, c := range sc.Cover(step) {
						res.Cover[c]++
					}
				}
				k := hashKey(w2.Canon(sat))
				if seen[k] && res.Audited < audits {
					if w1 := firstWorld[k]; w1 != nil {
						res.Audited++
						d, soft := auditPair(sc, st, sat, w1, w2)
						if d != "" {
							report(Violation{Rule: "harness/canonical-abstraction", Detail: "two concrete states with the same canonical key answer the same request differently (" + d + "); first reached by " + strings.Join(firstPath[k], " ; ")}, full)
						}
						res.AuditActions += soft >> 16
						res.AuditKeyMismatch += soft & 0xffff
						delete(firstWorld, k)
					}
				}
				if !seen[k] {
					seen[k] = true
					if len(firstWorld) < 4000 {
						firstWorld[k] = w2
						firstPath[k] = full
					}
					if sc.State != nil {
						sc.State(step)
					}
					nn := node{w: w2, path: full, key: k}
					next = append(next, nn)
					all = append(all, node{path: full, key: k})
					if len(res.Samples) < 3 || (len(all)%997 == 0 && len(res.Samples) < 8) {
						res.Samples = append(res.Samples, full)
					}
					if sc.MaxStates > 0 && len(seen) >= sc.MaxStates {
						res.Exhaustive, res.CapHit = false, fmt.Sprintf("max-states=%d", sc.MaxStates)
						frontier = nil
						break outer
					}
				}
			}
		}
		frontier = next
		res.DepthDone = depth
	}
	if len(frontier) > 0 && sc.Depth == 0 {
		res.Exhaustive = false
	}
	res.States = len(seen)

	// Validate by replay: every distinct state's shortest trace is re-executed
	// from scratch on a FRESH instance; the canonical end state must be the one
	// the snapshot search recorded (the instance carries no hidden state).
	for _, n := range all {
		if !deadline.IsZero() && time.Now().After(deadline) {
			res.Exhaustive, res.CapHit = false, "deadline(replay)"
			break
		}
		if len(n.path) == 0 {
			continue
		}
		key, err := replayFrom(sc, init0.Clone(), n.path, nil)
		if err != nil {
			report(Violation{Rule: "replay/diverged", Detail: err.Error()}, n.path)
			continue
		}
		if key != n.key {
			report(Violation{Rule: "replay/state-differs", Detail: "state reached by snapshot search differs from the state reached by replaying the same trace on a fresh instance: behaviour depends on history not captured by the externally held state"}, n.path)
			continue
		}
		res.Validated++
	}
	for _, need := range sc.Need {
		if res.Cover[need] == 0 && res.Exhaustive {
			res.Vacuous = append(res.Vacuous, need)
			report(Violation{Rule: "vacuity", Attrs: need, Detail: "the exploration completed but never exercised '" + need + "': the positive half of the property does not hold (or the flow is unreachable)"}, nil)
		}
	}
	sort.Strings(res.Vacuous)
	res.WallS = time.Since(t0).Seconds()
	return res
}

// auditPair runs the whole menu from two concrete worlds that share a canonical
// key and compares response classes and canonical successors.
func auditPair(sc Scenario, st *world.Stack, sat time.Duration, w1, w2 *world.World) (string, int) {
	a1, a2 := sc.Actions(st, w1), sc.Actions(st, w2)
	if len(a1) != len(a2) {
		return fmt.Sprintf("menus differ in size: %d vs %d", len(a1), len(a2)), 0
	}
	compared, mismatched := 0, 0
	for i := range a1 {
		if a1[i].Name != a2[i].Name {
			return "menus differ: " + a1[i].Name + " vs " + a2[i].Name, 0
		}
		c1, c2 := w1.Clone(), w2.Clone()
		o1 := a1[i].Run(st, c1)
		o2 := a2[i].Run(st, c2)
		if sc.Model != nil {
			sc.Model(&Step{S: st, Pre: w1, Act: a1[i], Obs: o1, Post: c1, Report: func(Violation) {}, Count: func(int, string) {}})
			sc.Model(&Step{S: st, Pre: w2, Act: a2[i], Obs: o2, Post: c2, Report: func(Violation) {}, Count: func(int, string) {}})
		}
		if (o1 == nil) != (o2 == nil) {
			return "action " + a1[i].Name + ": one is a request, the other is not", 0
		}
		// hard requirement: the two concrete states answer alike (status, redirect or not, panic or
		// not, session user and the set of session / cookie keys afterwards)
		if o1 != nil {
			if o1.Status != o2.Status || (o1.Location == "") != (o2.Location == "") || (o1.Panic == "") != (o2.Panic == "") ||
				o1.UIDAfter() != o2.UIDAfter() || keySet(o1.SessAfter) != keySet(o2.SessAfter) || keySet(o1.CookAfter) != keySet(o2.CookAfter) {
				return fmt.Sprintf("action %s: %d %q uid=%q sess=%s  vs  %d %q uid=%q sess=%s", a1[i].Name, o1.Status, o1.Location, o1.UIDAfter(), keySet(o1.SessAfter), o2.Status, o2.Location, o2.UIDAfter(), keySet(o2.SessAfter)), 0
			}
		}
		compared++
		// informational: canonical successors that differ mean the key is over-fine here (e.g. the
		// order in which equivalent random values were first seen), or - if the answers above
		// had differed - unsound
		if k1, k2 := hashKey(c1.Canon(sat)), hashKey(c2.Canon(sat)); k1 != k2 {
			mismatched++
		}
	}
	return "", compared<<16 | (mismatched & 0xffff)
}

func keySet(m map[string]string) string {
	ks := make([]string, 0, len(m))
	for k := range m {
		ks = append(ks, k)
	}
	sort.Strings(ks)
	return strings.Join(ks, ",")
}

// Replay executes a trace of action names from the scenario's initial state on
// a fresh instance. visit (optional) sees every step. It returns the canonical
// key of the final state.
func Replay(sc Scenario, path []string, visit func(st *Step)) (string, error) {
	return replayFrom(sc, nil, path, visit)
}

func replayFrom(sc Scenario, w *world.World, path []string, visit func(st *Step)) (string, error) {
	st, err := world.NewStack(sc.Cfg)
	if err != nil {
		return "", err
	}
	sat := sc.Sat
	if sat == 0 {
		sat = 13 * time.Hour
	}
	if w == nil {
		w = sc.Init(st)
	}
	var done []string
	for _, name := range path {
		var act *Action
		for _, a := range sc.Actions(st, w) {
			if a.Name == name {
				a := a
				act = &a
				break
			}
		}
		if act == nil {
			return "", fmt.Errorf("action %q is not enabled after %v", name, done)
		}
		pre := w.Clone()
		obs := act.Run(st, w)
		step := &Step{S: st, Pre: pre, Act: *act, Obs: obs, Post: w, Path: done, Report: func(Violation) {}, Count: func(int, string) {}}
		if sc.Model != nil {
			sc.Model(step)
		}
		if visit != nil {
			visit(step)
		}
		done = append(done, name)
	}
	return hashKey(w.Canon(sat)), nil
}

func firstLine(s string) string {
	if i := strings.IndexByte(s, '\n'); i >= 0 {
		s = s[:i]
	}
	if len(s) > 80 {
		s = s[:80]
	}
	return s
}
