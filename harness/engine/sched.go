package engine

import (
	"fmt"
	"strings"
	"sync"

	"verif/shim/vsched"
)

// E5 — controlled scheduler. Logical threads (client scripts and the mail
// goroutines the library starts itself) are real goroutines, but exactly one
// runs at a time: every harness seam calls Point before it acts, which hands
// control back to the scheduler. A schedule is the sequence of choices made at
// the points where more than one thread is enabled.

// SchedPoint records one scheduling decision of an execution.
type SchedPoint struct {
	Enabled             int  // number of enabled threads (canonical order: running first, then ascending ids)
	RunningStillEnabled bool // the previously running thread could have continued
	Chosen              int  // index into the canonical order
	Thread              int  // id of the chosen thread
	Label               string
	Key                 string // global state key before the decision (pruned exploration only)
}

type sthread struct {
	id      int
	name    string
	root    string      // name of the client this thread belongs to (itself, or the spawning client)
	wait    func() bool // when set, the thread is only enabled once wait() is true
	hist    uint64      // hash of everything the environment has answered this thread so far
	resume  chan struct{}
	done    bool
	started bool
	blocked interface{} // mutex this thread waits for
	label   string      // label of the point it is parked at
}

type sevent struct {
	t    *sthread
	exit bool
}

// RaceReport is a tracked-cell conflict found under the scheduler.
type RaceReport struct {
	Cell   string
	Label1 string
	Label2 string
}

// Sched runs one execution under a given choice prefix.
type Sched struct {
	mu      sync.Mutex
	threads []*sthread
	cur     *sthread
	events  chan sevent
	held    map[interface{}]*sthread
	inside  map[interface{}]map[*sthread]cellAccess

	// KeyFn (optional) digests the shared world; together with every thread's position and
	// answer history it forms the global state key used by the pruned exploration.
	KeyFn func() string

	Points   []SchedPoint
	Races    []RaceReport
	Deadlock string
	Diverged string
}

type cellAccess struct {
	write bool
	label string
}

// CurID returns the id of the running logical thread (its root client for spawned threads).
func (s *Sched) CurID() int {
	if s.cur == nil {
		return -1
	}
	return s.cur.id
}

// CurName returns the running thread's name.
func (s *Sched) CurName() string {
	if s.cur == nil {
		return ""
	}
	return s.cur.name
}

// Note folds an environment answer (what a seam returned to the running thread) into that
// thread's history hash: a thread is a deterministic function of the answers it has seen.
func (s *Sched) Note(answer string) {
	if s.cur == nil {
		return
	}
	h := s.cur.hist
	if h == 0 {
		h = 1469598103934665603
	}
	for i := 0; i < len(answer); i++ {
		h ^= uint64(answer[i])
		h *= 1099511628211
	}
	h ^= 0xff
	h *= 1099511628211
	s.cur.hist = h
}

func (s *Sched) stateKey() string {
	if s.KeyFn == nil {
		return ""
	}
	var sb strings.Builder
	sb.WriteString(s.KeyFn())
	for _, t := range s.threads {
		fmt.Fprintf(&sb, "|%s:%x:%s:%v:%v", t.name, t.hist, t.label, t.done, t.blocked != nil)
	}
	for cell, in := range s.inside {
		fmt.Fprintf(&sb, "|in:%T:%d", cell, len(in))
	}
	return sb.String()
}

// CurRoot returns the name of the client the running thread belongs to.
func (s *Sched) CurRoot() string {
	if s.cur == nil {
		return ""
	}
	return s.cur.root
}

// WaitUntil parks the running thread until cond holds (modelled as blocking,
// not as a spin: the thread is simply not enabled while cond is false).
func (s *Sched) WaitUntil(label string, cond func() bool) {
	for !cond() {
		s.cur.wait = cond
		s.point("wait:" + label)
	}
	s.cur.wait = nil
}

func (s *Sched) newThread(name, root string, f func()) *sthread {
	t := &sthread{id: len(s.threads), name: name, root: root, resume: make(chan struct{})}
	s.threads = append(s.threads, t)
	go func() {
		<-t.resume
		f()
		t.done = true
		s.events <- sevent{t: t, exit: true}
	}()
	return t
}

func (s *Sched) point(label string) {
	t := s.cur
	t.label = label
	s.events <- sevent{t: t}
	<-t.resume
}

// RunSchedule executes the client bodies under the choice prefix; beyond the
// prefix the default choice (0: keep running the current thread) is taken.
func RunSchedule(names []string, bodies []func(s *Sched), prefix []int) *Sched {
	return RunScheduleKeyed(names, bodies, prefix, nil)
}

// RunScheduleKeyed is RunSchedule with a world digest function for state keys.
func RunScheduleKeyed(names []string, bodies []func(s *Sched), prefix []int, keyFn func() string) *Sched {
	s := &Sched{KeyFn: keyFn, events: make(chan sevent), held: map[interface{}]*sthread{}, inside: map[interface{}]map[*sthread]cellAccess{}}
	vsched.Install(&vsched.Hooks{
		Spawn: func(f func()) {
			parent := s.cur
			s.newThread(parent.name+"/mail", parent.root, f)
		},
		Point: func(label string) { s.point(label) },
		Lock: func(m interface{}) {
			for s.held[m] != nil && s.held[m] != s.cur {
				s.cur.blocked = m
				s.point("mutex.wait")
			}
			s.cur.blocked = nil
			s.held[m] = s.cur
		},
		Unlock: func(m interface{}) {
			delete(s.held, m)
			s.point("mutex.unlock")
		},
		Enter: func(cell interface{}, write bool, label string) {
			s.point(label + ":enter")
			for other, acc := range s.inside[cell] {
				if other != s.cur && (write || acc.write) {
					s.Races = append(s.Races, RaceReport{Cell: fmt.Sprintf("%T", cell), Label1: acc.label + " [" + other.name + "]", Label2: label + " [" + s.cur.name + "]"})
				}
			}
			if s.inside[cell] == nil {
				s.inside[cell] = map[*sthread]cellAccess{}
			}
			s.inside[cell][s.cur] = cellAccess{write, label}
			s.point(label + ":inside")
		},
		Leave: func(cell interface{}, write bool) {
			delete(s.inside[cell], s.cur)
		},
	})
	defer vsched.Install(nil)

	for i, b := range bodies {
		b := b
		s.newThread(names[i], names[i], func() { b(s) })
	}
	step := 0
	var running *sthread
	for {
		// canonical order of enabled threads
		var enabled []*sthread
		can := func(t *sthread) bool {
			if t.done || (t.blocked != nil && s.held[t.blocked] != nil) {
				return false
			}
			return t.wait == nil || t.wait()
		}
		if running != nil && can(running) {
			enabled = append(enabled, running)
		}
		for _, t := range s.threads {
			if t != running && can(t) {
				enabled = append(enabled, t)
			}
		}
		if len(enabled) == 0 {
			var stuck []string
			for _, t := range s.threads {
				if !t.done {
					stuck = append(stuck, t.name+"@"+t.label)
				}
			}
			if len(stuck) > 0 {
				s.Deadlock = strings.Join(stuck, ", ")
			}
			return s
		}
		choice := 0
		if len(enabled) > 1 {
			if step < len(prefix) {
				choice = prefix[step]
				if choice >= len(enabled) {
					s.Diverged = fmt.Sprintf("choice %d at decision %d out of range (%d enabled)", choice, step, len(enabled))
					choice = 0
				}
			}
			runEnabled := running != nil && len(enabled) > 0 && enabled[0] == running
			s.Points = append(s.Points, SchedPoint{Enabled: len(enabled), RunningStillEnabled: runEnabled, Chosen: choice, Thread: enabled[choice].id, Label: enabled[choice].label, Key: s.stateKey()})
			step++
		}
		t := enabled[choice]
		running = t
		s.cur = t
		t.resume <- struct{}{}
		<-s.events // the thread reached its next point or exited
	}
}

// preemptionsUpTo counts the preemptions among the first n decisions.
func preemptionsUpTo(pts []SchedPoint, n int) int {
	c := 0
	for i := 0; i < n && i < len(pts); i++ {
		if pts[i].RunningStillEnabled && pts[i].Chosen != 0 {
			c++
		}
	}
	return c
}

// ExploreSchedules is the stateless DFS of all schedules with at most `bound`
// preemptions. run executes one schedule (it must build a fresh world each
// time) and returns the execution; check is called for every execution.
// It returns the number of executions and whether the cap was hit.
func ExploreSchedules(bound int, maxExec int, run func(prefix []int) *Sched, check func(prefix []int, x *Sched)) (int, bool) {
	execs := 0
	capped := false
	var rec func(prefix []int)
	rec = func(prefix []int) {
		if capped {
			return
		}
		if maxExec > 0 && execs >= maxExec {
			capped = true
			return
		}
		x := run(prefix)
		execs++
		choices := make([]int, len(x.Points))
		for i, p := range x.Points {
			choices[i] = p.Chosen
		}
		check(choices, x)
		for i := len(prefix); i < len(x.Points); i++ {
			p := x.Points[i]
			base := preemptionsUpTo(x.Points, i)
			for alt := 1; alt < p.Enabled; alt++ {
				cost := base
				if p.RunningStillEnabled {
					cost++
				}
				if cost > bound {
					continue
				}
				np := append(append([]int(nil), choices[:i]...), alt)
				rec(np)
			}
		}
	}
	rec(nil)
	return execs, capped
}

// ExploreSchedulesPruned explores ALL schedules (no preemption bound) with
// global-state-key pruning: a decision point whose state key (shared world +
// every thread's position and answer history) was reached before is not
// branched from again - the execution that first reached it explores every
// alternative from there. Sound as long as a thread's behaviour is a function
// of the answers it has received (which Note records) and the shared world.
func ExploreSchedulesPruned(maxExec int, run func(prefix []int) *Sched, check func(prefix []int, x *Sched)) (execs, states int, capped bool) {
	visited := map[string]bool{}
	var rec func(prefix []int)
	rec = func(prefix []int) {
		if capped {
			return
		}
		if maxExec > 0 && execs >= maxExec {
			capped = true
			return
		}
		x := run(prefix)
		execs++
		choices := make([]int, len(x.Points))
		for i, p := range x.Points {
			choices[i] = p.Chosen
		}
		check(choices, x)
		for i := len(prefix); i < len(x.Points); i++ {
			p := x.Points[i]
			if visited[p.Key] {
				break // everything from this state on is being / has been explored by its first visitor
			}
			visited[p.Key] = true
			for alt := 1; alt < p.Enabled; alt++ {
				rec(append(append([]int(nil), choices[:i]...), alt))
			}
		}
	}
	rec(nil)
	return execs, len(visited), capped
}
