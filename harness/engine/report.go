package engine

import (
	"encoding/json"
	"fmt"
	"os"
	"path/filepath"
	"regexp"
	"sort"
	"strings"
	"time"
)

// Unit is one independently runnable piece of a check (a scenario, a shard of
// a product); units run in separate worker processes because the virtual clock
// and crypto/rand are process globals.
type Unit struct {
	Name string
	Run  func(deadline time.Time) UnitResult
	// Replay re-executes one recorded trace verbosely (for replay files).
	Replay func(path []string, out func(string)) error
}

// UnitResult is what a worker reports.
type UnitResult struct {
	Unit                           string
	States                         int
	Transitions                    int
	Validated                      int
	Audited                        int
	AuditActions, AuditKeyMismatch int
	Evaluations                    int
	Distinct                       map[string]bool // distinct non-trivial outcome classes hit
	DepthDone                      int
	Exhaustive                     bool
	CapHit                         string
	Violations                     []Violation
	Cover                          map[string]int
	Samples                        []interface{}
	Vacuous                        []string
	WallS                          float64
}

// FromE1 converts an E1 result.
func FromE1(r Result) UnitResult {
	u := UnitResult{Unit: r.Scenario, Audited: r.Audited, AuditActions: r.AuditActions, AuditKeyMismatch: r.AuditKeyMismatch, Evaluations: r.Evaluations, States: r.States, Transitions: r.Transitions, Validated: r.Validated,
		DepthDone: r.DepthDone, Exhaustive: r.Exhaustive, CapHit: r.CapHit, Violations: r.Violations, Cover: r.Cover,
		Vacuous: r.Vacuous, WallS: r.WallS, Distinct: map[string]bool{}}
	for _, s := range r.Samples {
		u.Samples = append(u.Samples, s)
	}
	for k := range r.Cover {
		u.Distinct[k] = true
	}
	return u
}

// E1Unit wraps a scenario as a unit.
func E1Unit(sc Scenario) Unit {
	return Unit{
		Name: sc.Name,
		Run:  func(dl time.Time) UnitResult { return FromE1(Explore(sc, dl)) },
		Replay: func(path []string, out func(string)) error {
			_, err := Replay(sc, path, func(st *Step) {
				if st.Obs != nil {
					out(fmt.Sprintf("%-40s %s", st.Act.Name, st.Obs.Brief()))
				} else {
					out(fmt.Sprintf("%-40s (environment step; now=%s)", st.Act.Name, st.Post.Now.Format(time.RFC3339)))
				}
				st.Report = func(v Violation) { out("    !! " + v.Sig() + ": " + firstLine(v.Detail)) }
				if sc.Monitor != nil {
					sc.Monitor(st)
				}
				if sc.State != nil {
					sc.State(st)
				}
			})
			return err
		},
	}
}

// Sharded returns n copies of sc, each exploring a share of the level-1 subtrees.
// Vacuity requirements are dropped on shards (a single shard need not hit every class).
func Sharded(sc Scenario, n int) []Scenario {
	var out []Scenario
	for i := 0; i < n; i++ {
		c := sc
		c.Name = fmt.Sprintf("%s#%d/%d", sc.Name, i, n)
		c.ShardIdx, c.ShardN = i, n
		c.Need = nil
		out = append(out, c)
	}
	return out
}

// Property is one registered check.
type Property struct {
	ID    string
	Level string // model_checking | exploration | fault_enumeration
	Rule  string // how cases are enumerated / what makes one non-trivial
	Units func(tier string) []Unit
	// Need lists coverage classes that the merged run must hit (vacuity guard
	// for sharded scenarios; unsharded scenarios carry their own Need).
	Need []string
	// Assumptions recorded in the evidence file.
	Assumptions []string
	// Budget per unit (wall clock) for the two tiers; exceeding it ends the unit with exhaustive=false.
	QuickBudget, ThoroughBudget time.Duration
}

var registry = map[string]*Property{}

// Register adds a property check.
func Register(p *Property) { registry[p.ID] = p }

// Lookup finds a property check.
func Lookup(id string) *Property { return registry[id] }

// IDs lists the registered ids.
func IDs() []string {
	var ids []string
	for k := range registry {
		ids = append(ids, k)
	}
	sort.Strings(ids)
	return ids
}

// ---------------------------------------------------------------- known findings

// Finding is one entry of /verif/known_findings.json.
type Finding struct {
	Status    string `json:"status"` // known | fixed
	Property  string `json:"property"`
	Signature string `json:"signature,omitempty"` // regexp matched against the violation signature (known only)
	Commit    string `json:"commit,omitempty"`
	What      string `json:"what"`
}

// LoadFindings reads the known-findings file (read-only at run time).
func LoadFindings(path string) []Finding {
	b, err := os.ReadFile(path)
	if err != nil {
		return nil
	}
	var f struct {
		Findings []Finding `json:"findings"`
	}
	if json.Unmarshal(b, &f) != nil {
		return nil
	}
	return f.Findings
}

func matchKnown(fs []Finding, prop string, v Violation) *Finding {
	for i := range fs {
		f := &fs[i]
		if f.Status != "known" || f.Property != prop || f.Signature == "" {
			continue
		}
		if ok, _ := regexp.MatchString("^(?:"+f.Signature+")$", v.Sig()); ok {
			return f
		}
	}
	return nil
}

// ---------------------------------------------------------------- merge + evidence

// ReplayFile is the replayable artefact of one violation.
type ReplayFile struct {
	Property  string   `json:"property"`
	Unit      string   `json:"unit"`
	Tier      string   `json:"tier"`
	Signature string   `json:"signature"`
	Detail    string   `json:"detail"`
	Actions   []string `json:"actions"`
}

var unsafeChars = regexp.MustCompile(`[^A-Za-z0-9_.-]+`)

// Finish merges the unit results, writes the evidence file and replay files,
// prints the VIOLATION / KNOWN-FINDING lines and returns the exit code.
func Finish(p *Property, tier string, seed int, results []UnitResult, root string, wall float64) int {
	findings := LoadFindings(filepath.Join(root, "known_findings.json"))
	cov := map[string]interface{}{}
	var states, trans, valid, evals, audited, auditActs, auditMis int
	distinct := map[string]bool{}
	exhaustive := true
	var caps []string
	cover := map[string]int{}
	var samples []interface{}
	var vacuous []string
	perUnit := []map[string]interface{}{}
	var viols []Violation
	for _, r := range results {
		states += r.States
		trans += r.Transitions
		valid += r.Validated
		audited += r.Audited
		auditActs += r.AuditActions
		auditMis += r.AuditKeyMismatch
		evals += r.Evaluations
		for k := range r.Distinct {
			distinct[k] = true
		}
		if !r.Exhaustive {
			exhaustive = false
			caps = append(caps, r.Unit+":"+r.CapHit)
		}
		for k, v := range r.Cover {
			cover[k] += v
		}
		if len(samples) < 6 && len(r.Samples) > 0 {
			samples = append(samples, map[string]interface{}{"unit": r.Unit, "case": r.Samples[len(r.Samples)-1]})
		}
		for _, v := range r.Vacuous {
			vacuous = append(vacuous, r.Unit+":"+v)
		}
		viols = append(viols, r.Violations...)
		perUnit = append(perUnit, map[string]interface{}{"unit": r.Unit, "states": r.States, "transitions": r.Transitions,
			"evaluations": r.Evaluations, "validated": r.Validated, "depth_done": r.DepthDone, "exhaustive": r.Exhaustive, "cap": r.CapHit, "wall_s": r.WallS})
	}
	if len(samples) == 0 {
		samples = append(samples, "no cases")
	}
	switch p.Level {
	case "model_checking":
		cov["states"] = states
		cov["transitions"] = trans
		cov["traces_validated_against_impl"] = valid
		if evals > 0 {
			cov["evaluations"] = evals
		}
		cov["distinct_nontrivial"] = len(distinct)
	default:
		cov["evaluations"] = evals + trans
		cov["distinct_nontrivial"] = len(distinct)
		if states > 0 {
			cov["states"] = states
			cov["transitions"] = trans
			cov["traces_validated_against_impl"] = valid
		}
	}
	if audited > 0 {
		cov["canonical_key_collisions_audited"] = audited
		cov["audit_actions_compared"] = auditActs
		cov["audit_successor_key_mismatches"] = auditMis
	}
	cov["rule"] = p.Rule
	cov["samples"] = samples
	cov["exhaustive"] = exhaustive
	if len(caps) > 0 {
		cov["caps_hit"] = caps
	}
	cov["coverage_histogram"] = cover
	cov["units"] = perUnit
	if len(vacuous) > 0 {
		cov["vacuity"] = vacuous
	}

	if exhaustive {
		for _, need := range p.Need {
			if cover[need] == 0 {
				viols = append(viols, Violation{Rule: "vacuity", Attrs: need, Scen: "merged",
					Detail: "the exploration completed but never exercised '" + need + "': the positive half of the property does not hold (or the flow is unreachable)"})
			}
		}
	}
	exit := 0
	harnessFailed := false
	nViol := 0
	sigDone := map[string]bool{}
	os.MkdirAll(filepath.Join(root, "replays"), 0o755)
	var known []string
	for _, v := range viols {
		key := v.Scen + "|" + v.Sig()
		if sigDone[key] {
			continue
		}
		sigDone[key] = true
		if strings.HasPrefix(v.Rule, "harness/") {
			fmt.Printf("HARNESS-FAILURE property=%s %s: %s (unit %s; trace: %s)\n", p.ID, v.Sig(), firstLine(v.Detail), v.Scen, strings.Join(v.Path, " ; "))
			harnessFailed = true
			continue
		}
		if f := matchKnown(findings, p.ID, v); f != nil {
			line := fmt.Sprintf("KNOWN-FINDING: property=%s %s [%s]", p.ID, f.What, v.Sig())
			if !sigDone[line] {
				sigDone[line] = true
				fmt.Println(line)
				known = append(known, v.Sig())
			}
			continue
		}
		nViol++
		exit = 1
		name := unsafeChars.ReplaceAllString(p.ID+"-"+v.Scen+"-"+v.Sig(), "_")
		if len(name) > 150 {
			name = name[:150]
		}
		rp := filepath.Join(root, "replays", name+".json")
		js, _ := json.MarshalIndent(ReplayFile{Property: p.ID, Unit: v.Scen, Tier: tier, Signature: v.Sig(), Detail: v.Detail, Actions: v.Path}, "", " ")
		os.WriteFile(rp, js, 0o644)
		fmt.Printf("VIOLATION property=%s replay=%s\n", p.ID, rp)
		fmt.Printf("  signature: %s\n  scenario: %s\n  detail: %s\n  trace: %s\n", v.Sig(), v.Scen, firstLine(v.Detail), strings.Join(v.Path, " ; "))
	}
	if len(known) > 0 {
		cov["known_findings_seen"] = known
	}
	if harnessFailed && exit == 0 {
		exit = 2
	}
	ev := map[string]interface{}{
		"property_id": p.ID, "tier": tier, "seed": seed, "level": p.Level, "coverage": cov,
		"assumptions": p.Assumptions, "wall_s": wall, "violations": nViol,
	}
	js, _ := json.MarshalIndent(ev, "", " ")
	os.MkdirAll(filepath.Join(root, "evidence"), 0o755)
	os.WriteFile(filepath.Join(root, "evidence", p.ID+".json"), js, 0o644)
	fmt.Printf("%s %s: units=%d states=%d transitions=%d evaluations=%d validated=%d distinct=%d exhaustive=%v violations=%d wall=%.1fs\n",
		p.ID, tier, len(results), states, trans, evals, valid, len(distinct), exhaustive, nViol, wall)
	return exit
}
